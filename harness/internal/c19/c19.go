// Package c19: clones are equal to, and share no mutable memory with, their originals (property C19).
//
// For every input the real Clone runs, original and clone are walked through reflect/unsafe (walk.go) and
// written as gv terms with canonical location numbers (one numbering for both, so shared memory shows as
// a shared number); Coq runs the code-shaped model of that Clone on the observed original and compares.
// Oracle (from the property text, independent of the model): the two memory footprints do not overlap
// outside the documented shared kinds, go-perun's own Equal/encodings hold between clone and original,
// and no write to a mutable cell of one side (mutate.go) changes what the other side reads.
package c19

import (
	"bytes"
	"crypto/ecdsa"
	"crypto/elliptic"
	"fmt"
	"math/big"
	"math/rand"
	"reflect"
	"runtime"

	"perun.network/go-perun/apps/payment"
	simchannel "perun.network/go-perun/backend/sim/channel"
	simwallet "perun.network/go-perun/backend/sim/wallet"
	"perun.network/go-perun/channel"
	"perun.network/go-perun/channel/persistence"
	"perun.network/go-perun/wallet"
	"perun.network/go-perun/wire"
	"perun.network/go-perun/wire/net/simple"
	"perun.network/go-perun/wire/perunio"
	"verif/harness/internal/cv"
	"verif/harness/internal/hx"
	"verif/harness/internal/mach"
)

// kase is one input: a pointer to the root of the original and the real Clone to run on it.
type kase struct {
	kind     string // constructor of Run/Compare_C19.kind
	site     string // Go function under test
	class    string // generator class
	shape    string // dimensions (for the distinct count)
	orig     interface{}
	clone    func() interface{}              // returns a pointer to the root of the clone
	equal    func(c interface{}) string      // go-perun's own notion of equality; "" when equal
	mayPanic bool                            // the original is not a valid value (nil big integer, nil data, ...)
	partial  func(p interface{}) interface{} // part of the roots that the oracle compares (FromSource)
}

type runner struct {
	g        *cv.Gen
	res      *hx.Result
	w        *hx.CaseWriter
	curveKey string
	curve    elliptic.Curve
	writes   int // in-place writes applied by the observation oracle
	payApp   channel.App
	mockApp  channel.App
}

func enc(e perunio.Encoder) (b []byte, ok bool) {
	defer func() {
		if recover() != nil {
			b, ok = nil, false
		}
	}()
	var buf bytes.Buffer
	if err := e.Encode(&buf); err != nil {
		return nil, false
	}
	return buf.Bytes(), true
}

func encEqual(a, b perunio.Encoder) string {
	x, okx := enc(a)
	y, oky := enc(b)
	if okx != oky || !bytes.Equal(x, y) {
		return "encodings differ"
	}
	return ""
}

func (r *runner) process(k kase) {
	w := newWalker()
	w.sharedID(r.curveKey) // shared object 0: the curve singleton of the sim wallet (Model/Heap.v sim_curve)
	origTerm, origSpans := w.render(k.orig)
	next := w.next
	var cl interface{}
	panicked := func() (p bool) {
		defer func() {
			if e := recover(); e != nil {
				p = true
			}
		}()
		cl = k.clone()
		return false
	}()
	obs := "None"
	var cloneSpans []span
	if !panicked {
		var t string
		t, cloneSpans = w.render(cl)
		obs = "(Some " + t + ")"
	}
	idx := r.w.Add(hx.App("mkCase", k.kind, origTerm, fmt.Sprint(next), obs))
	r.res.CaseIndex = append(r.res.CaseIndex, k.kind+"/"+k.class)
	outcome := "cloned"
	if panicked {
		outcome = "panic"
	}
	r.res.Count(k.kind+"/"+k.class, outcome, k.kind+"/"+k.class+"/"+k.shape+"/"+outcome, false)
	r.res.Sample(map[string]interface{}{"kind": k.kind, "class": k.class, "original": short(origTerm), "clone": short(obs)})
	fail := func(what string) {
		r.res.Fail(hx.Failure{Site: k.site, InputClass: k.class, What: what, Case: idx,
			Replay: map[string]string{"kind": k.kind, "shape": k.shape, "original": short(origTerm), "clone": short(obs)}})
	}
	if panicked {
		if !k.mayPanic {
			fail("Clone panicked on a value without nil big integers / data / addresses")
		}
		return
	}
	// --- oracle 1: footprints are disjoint (what is reached only through shared kinds is not in the spans)
	o, c := k.orig, cl
	os, cs := origSpans, cloneSpans
	if k.partial != nil {
		o, c = k.partial(k.orig), k.partial(cl)
		w2 := newWalker()
		_, os = w2.render(o)
		_, cs = w2.render(c)
	}
	if s := overlap(os, cs); s != "" {
		fail(s)
	}
	// --- oracle 2: equal by go-perun's own equality / encodings
	if k.equal != nil {
		if s := k.equal(cl); s != "" {
			fail("clone is not equal to the original: " + s)
		}
	}
	// --- oracle 3: no write on one side is visible on the other
	n1, seen1, self1 := observe(w.shared, o, c)
	n2, seen2, self2 := observe(w.shared, c, o)
	r.writes += n1 + n2
	if len(seen1) > 0 {
		fail(fmt.Sprintf("a write to the original is visible through the clone: %s (%d of %d writes)", seen1[0], len(seen1), n1))
	}
	if len(seen2) > 0 {
		fail(fmt.Sprintf("a write to the clone is visible through the original: %s (%d of %d writes)", seen2[0], len(seen2), n2))
	}
	if !self1 || !self2 {
		panic("c19: a mutation was not undone (harness defect)")
	}
	runtime.KeepAlive(k.orig)
	runtime.KeepAlive(cl)
}

// ---------------------------------------------------------------- generators

func (r *runner) dim() int { return r.g.R.Intn(6) }

func (r *runner) bal() *big.Int {
	switch r.g.R.Intn(8) {
	case 0:
		return new(big.Int) // zero without a word array
	case 1:
		x := r.g.Bal()
		return x.Sub(x, x) // zero with a word array
	case 2:
		return new(big.Int).Neg(r.g.Bal())
	default:
		return r.g.Bal()
	}
}

func (r *runner) row(n int) []channel.Bal {
	row := make([]channel.Bal, n)
	for i := range row {
		row[i] = r.bal()
	}
	return row
}

func (r *runner) indexMap() ([]channel.Index, string) {
	switch r.g.R.Intn(4) {
	case 0:
		return nil, "nil"
	case 1:
		return []channel.Index{}, "empty"
	default:
		im := make([]channel.Index, 1+r.g.R.Intn(5))
		for i := range im {
			im[i] = channel.Index(r.g.R.Intn(6))
		}
		return im, fmt.Sprint(len(im))
	}
}

func (r *runner) balances(na, np int) channel.Balances {
	b := make(channel.Balances, na)
	for i := range b {
		b[i] = r.row(np)
	}
	return b
}

// alloc returns an allocation (not necessarily valid) with the given dimensions and a class label.
func (r *runner) alloc(na, np, nl int) (channel.Allocation, string) {
	g := r.g
	a := channel.Allocation{Balances: r.balances(na, np)}
	a.Assets = make([]channel.Asset, na)
	a.Backends = make([]wallet.BackendID, na)
	for i := range a.Assets {
		a.Assets[i] = g.Asset()
	}
	class := "plain"
	if nl > 0 {
		class = "locked"
		a.Locked = make([]channel.SubAlloc, nl)
		for i := range a.Locked {
			im, _ := r.indexMap()
			bals := r.row(na)
			if g.R.Intn(8) == 0 {
				bals = nil
			}
			if g.R.Intn(2) == 0 {
				a.Locked[i] = *channel.NewSubAlloc(g.ID(), bals, im)
			} else {
				a.Locked[i] = channel.SubAlloc{ID: g.ID(), Bals: bals, IndexMap: im}
			}
		}
	}
	switch g.R.Intn(12) {
	case 0:
		a.Locked, class = []channel.SubAlloc{}, "empty-locked"
	case 1:
		a.Backends, class = nil, "nil-backends"
	case 2:
		a.Assets, class = nil, "nil-assets"
	case 3:
		a.Balances, class = nil, "nil-balances"
	case 4:
		if na > 0 {
			a.Balances[g.R.Intn(na)], class = nil, "nil-row"
		}
	case 5:
		if na > 1 {
			a.Balances[0], class = a.Balances[1], "aliased-rows"
		}
	case 6:
		// every slice with spare capacity behind its length (as append leaves them): a clone that keeps
		// a backing array shares what a later append writes
		a.Assets = append(make([]channel.Asset, 0, len(a.Assets)+3), a.Assets...)
		a.Backends = append(make([]wallet.BackendID, 0, len(a.Backends)+3), a.Backends...)
		a.Locked = append(make([]channel.SubAlloc, 0, len(a.Locked)+2), a.Locked...)
		for i := range a.Balances {
			a.Balances[i] = append(make([]channel.Bal, 0, len(a.Balances[i])+2), a.Balances[i]...)
		}
		for i := range a.Locked {
			a.Locked[i].Bals = append(make([]channel.Bal, 0, len(a.Locked[i].Bals)+2), a.Locked[i].Bals...)
			if a.Locked[i].IndexMap != nil {
				a.Locked[i].IndexMap = append(make([]channel.Index, 0, len(a.Locked[i].IndexMap)+2), a.Locked[i].IndexMap...)
			}
		}
		class = "spare-capacity"
	case 7:
		// emptied, not nil: the list after its last sub-allocation was removed (length 0, capacity > 0)
		if nl > 0 {
			a.Locked, class = a.Locked[:0], "locked-emptied"
		} else {
			a.Locked, class = make([]channel.SubAlloc, 0, 2), "locked-emptied"
		}
	}
	return a, class
}

// apps with definitions derived from fixed scalars (cv's definitions come from ecdsa.GenerateKey and differ
// from run to run, which would make the channel ids of the cases differ)
func (r *runner) fixedApp(k byte) simchannel.AppID {
	x, y := r.curve.ScalarBaseMult([]byte{k})
	return simchannel.AppID{Address: (*simwallet.Address)(&ecdsa.PublicKey{Curve: r.curve, X: x, Y: y})}
}

func (r *runner) appData() (channel.App, channel.Data, string) {
	if r.payApp == nil {
		r.payApp = &payment.App{ID: r.fixedApp(11)}
		r.mockApp = channel.NewMockApp(r.fixedApp(12))
	}
	switch r.g.R.Intn(3) {
	case 0:
		return channel.NoApp(), channel.NoData(), "noapp"
	case 1:
		return r.payApp, channel.NoData(), "pay"
	default:
		return r.mockApp, channel.NewMockOp(channel.MockOp(r.g.R.Intn(3))), "mock"
	}
}

func (r *runner) state() (*channel.State, string) {
	app, data, kind := r.appData()
	al, class := r.alloc(r.dim(), r.dim(), r.dim()*r.g.R.Intn(2))
	return &channel.State{ID: r.g.ID(), Version: r.g.R.Uint64() >> uint(r.g.R.Intn(64)), App: app, Data: data,
		Allocation: al, IsFinal: r.g.R.Intn(2) == 0}, kind + "/" + class
}

func (r *runner) sigs(n int) ([]wallet.Sig, string) {
	g := r.g
	switch g.R.Intn(8) {
	case 0:
		return nil, "nil"
	case 1:
		return []wallet.Sig{}, "empty"
	}
	s := make([]wallet.Sig, n)
	present := 0
	for i := range s {
		switch g.R.Intn(6) {
		case 0, 1:
		case 2:
			s[i] = []byte{}
			present++
		default:
			s[i] = make([]byte, 64)
			g.R.Read(s[i])
			present++
		}
	}
	class := "partial"
	if present == n {
		class = "full"
	} else if present == 0 {
		class = "none"
	}
	if n > 1 && s[0] != nil && g.R.Intn(10) == 0 {
		s[1], class = s[0], "aliased"
	}
	return s, class
}

// addr returns a sim address derived from the PRNG alone (ecdsa.GenerateKey deliberately consumes a
// nondeterministic number of bytes, so its keys differ from run to run).
func (r *runner) addr() wallet.Address {
	k := make([]byte, 32)
	r.g.R.Read(k)
	k[0] &= 0x7f
	k[31] |= 1
	x, y := r.curve.ScalarBaseMult(k)
	return (*simwallet.Address)(&ecdsa.PublicKey{Curve: r.curve, X: x, Y: y})
}

func (r *runner) addrMap() (map[wallet.BackendID]wallet.Address, string) {
	switch r.g.R.Intn(10) {
	case 0:
		return nil, "nil-map"
	case 1:
		return map[wallet.BackendID]wallet.Address{}, "empty-map"
	case 2:
		return map[wallet.BackendID]wallet.Address{0: r.addr(), 1: r.addr()}, "two-backends"
	default:
		return map[wallet.BackendID]wallet.Address{0: r.addr()}, "one"
	}
}

func (r *runner) parts(n int, multi bool) ([]map[wallet.BackendID]wallet.Address, string) {
	switch r.g.R.Intn(12) {
	case 0:
		return nil, "nil-parts"
	case 1:
		return []map[wallet.BackendID]wallet.Address{}, "empty-parts"
	}
	ps := make([]map[wallet.BackendID]wallet.Address, n)
	class := "one"
	for i := range ps {
		var c string
		ps[i], c = r.addrMap()
		if c == "two-backends" && !multi { // CalcID and Encode iterate the map: id and encoding would differ from run to run
			ps[i], c = map[wallet.BackendID]wallet.Address{0: ps[i][0]}, "one"
		}
		if c != "one" {
			class = c
		}
	}
	return ps, class
}

func (r *runner) nonce() *big.Int {
	switch r.g.R.Intn(4) {
	case 0:
		return new(big.Int)
	case 1:
		return new(big.Int).SetUint64(r.g.R.Uint64())
	default:
		b := make([]byte, 32)
		r.g.R.Read(b)
		return new(big.Int).SetBytes(b)
	}
}

func (r *runner) params(n int) (*channel.Params, string) {
	g := r.g
	parts, class := r.parts(n, false)
	app, _, kind := r.appData()
	var aux channel.Aux
	if g.R.Intn(2) == 0 {
		g.R.Read(aux[:])
	}
	cd := uint64(1 + g.R.Intn(1000))
	nonce := r.nonce()
	var p *channel.Params
	func() {
		defer func() {
			if recover() != nil {
				p = nil
			}
		}()
		p = channel.NewParamsUnsafe(cd, parts, app, nonce, g.R.Intn(2) == 0, g.R.Intn(2) == 0, aux)
	}()
	if p == nil { // the backend cannot hash these parameters: the fields alone (id stays zero)
		p = &channel.Params{ChallengeDuration: cd, Parts: parts, App: app, Nonce: nonce, Aux: aux}
		class += "/no-id"
	}
	return p, kind + "/" + class
}

// ---------------------------------------------------------------- one case per cloneable type

func ptrTo[T any](v T) *T { return &v }

func (r *runner) simple(round int) {
	g := r.g
	// CloneBals
	{
		n := r.dim()
		row := r.row(n)
		class := "plain"
		switch g.R.Intn(8) {
		case 0:
			row, class = nil, "nil"
		case 1:
			row, class = []channel.Bal{}, "empty"
		case 2:
			if n > 1 {
				row[1], class = row[0], "aliased-ints"
			}
		}
		o := ptrTo(row)
		r.process(kase{kind: "KBalRow", site: "channel.CloneBals", class: class, shape: fmt.Sprint(len(row)), orig: o,
			clone: func() interface{} { return ptrTo(channel.CloneBals(*o)) },
			equal: func(c interface{}) string {
				cl := *c.(*[]channel.Bal)
				if len(cl) != len(*o) || (cl == nil) != (*o == nil) {
					return "length or nil-ness differs"
				}
				for i := range cl {
					if cl[i].Cmp((*o)[i]) != 0 {
						return fmt.Sprintf("entry %d differs", i)
					}
				}
				return ""
			}})
	}
	// CloneIndexMap
	{
		im, class := r.indexMap()
		o := ptrTo(im)
		r.process(kase{kind: "KIndexMap", site: "channel.CloneIndexMap", class: class, shape: class, orig: o,
			clone: func() interface{} { return ptrTo(channel.CloneIndexMap(*o)) },
			equal: func(c interface{}) string {
				if !reflect.DeepEqual(*c.(*[]channel.Index), *o) {
					return "index maps differ"
				}
				return ""
			}})
	}
	// Balances.Clone
	{
		na, np := r.dim(), r.dim()
		b := r.balances(na, np)
		class := "plain"
		switch g.R.Intn(8) {
		case 0:
			b, class = nil, "nil"
		case 1:
			b, class = channel.Balances{}, "empty"
		case 2:
			if na > 0 {
				b[g.R.Intn(na)], class = nil, "nil-row"
			}
		case 3:
			if na > 0 {
				b[g.R.Intn(na)], class = []channel.Bal{}, "empty-row"
			}
		case 4:
			if na > 1 {
				b[1], class = b[0], "aliased-rows"
			}
		}
		o := ptrTo(b)
		r.process(kase{kind: "KBals", site: "channel.Balances.Clone", class: class, shape: fmt.Sprintf("%dx%d", na, np), orig: o,
			clone: func() interface{} { return ptrTo(o.Clone()) },
			equal: func(c interface{}) string {
				if !o.Equal(*c.(*channel.Balances)) {
					return "Balances.Equal is false"
				}
				return ""
			}})
	}
	// Allocation.Clone
	{
		na, np, nl := r.dim(), r.dim(), r.dim()*g.R.Intn(2)
		a, class := r.alloc(na, np, nl)
		o := ptrTo(a)
		r.process(kase{kind: "KAlloc", site: "channel.Allocation.Clone", class: class, shape: fmt.Sprintf("%dx%dx%d", na, np, nl), orig: o,
			clone: func() interface{} { return ptrTo(o.Clone()) },
			equal: func(c interface{}) string {
				cl := c.(*channel.Allocation)
				if err := o.Equal(cl); err != nil {
					return "Allocation.Equal: " + err.Error()
				}
				if o.Valid() == nil {
					return encEqual(*o, *cl)
				}
				return ""
			}})
	}
	// State.Clone
	{
		s, class := r.state()
		if round%16 == 0 {
			s, class = nil, "nil-state"
		}
		o := ptrTo(s)
		r.process(kase{kind: "KState", site: "channel.State.Clone", class: class, shape: stateShape(s), orig: o,
			clone: func() interface{} { return ptrTo((*o).Clone()) },
			equal: func(c interface{}) string { return stateEqual(*o, *c.(**channel.State)) }})
	}
	// CloneSigs
	{
		n := r.dim()
		s, class := r.sigs(n)
		o := ptrTo(s)
		r.process(kase{kind: "KSigs", site: "wallet.CloneSigs", class: class, shape: fmt.Sprint(len(s)), orig: o,
			clone: func() interface{} { return ptrTo(wallet.CloneSigs(*o)) },
			equal: func(c interface{}) string { return sigsEqual(*o, *c.(*[]wallet.Sig)) }})
	}
	// Transaction.Clone
	{
		s, class := r.state()
		if g.R.Intn(6) == 0 {
			s, class = nil, "nil-state"
		}
		sg, sclass := r.sigs(r.dim())
		t := channel.Transaction{State: s, Sigs: sg}
		o := ptrTo(t)
		r.process(kase{kind: "KTx", site: "channel.Transaction.Clone", class: class + "/sigs-" + sclass, shape: stateShape(s) + fmt.Sprint(len(sg)), orig: o,
			clone: func() interface{} { return ptrTo(o.Clone()) },
			equal: func(c interface{}) string {
				cl := c.(*channel.Transaction)
				if s := stateEqual(o.State, cl.State); s != "" {
					return s
				}
				return sigsEqual(o.Sigs, cl.Sigs)
			}})
	}
	// wallet.CloneAddress, CloneAddresses, CloneAddressesMap, channel.CloneAddresses
	{
		a := r.addr()
		o := ptrTo(a)
		r.process(kase{kind: "KAddr", site: "wallet.CloneAddress", class: "sim", shape: "-", orig: o,
			clone: func() interface{} { return ptrTo(wallet.CloneAddress(*o)) },
			equal: func(c interface{}) string {
				if !(*o).Equal(*c.(*wallet.Address)) {
					return "Address.Equal is false"
				}
				return ""
			}})
		n := r.dim()
		as := make([]wallet.Address, n)
		for i := range as {
			as[i] = r.addr()
		}
		class := "plain"
		if g.R.Intn(8) == 0 {
			as, class = nil, "nil"
		}
		oa := ptrTo(as)
		r.process(kase{kind: "KAddrs", site: "wallet.CloneAddresses", class: class, shape: fmt.Sprint(len(as)), orig: oa,
			clone: func() interface{} { return ptrTo(wallet.CloneAddresses(*oa)) },
			equal: func(c interface{}) string {
				cl := *c.(*[]wallet.Address)
				if len(cl) != len(*oa) {
					return "length differs"
				}
				for i := range cl {
					if !cl[i].Equal((*oa)[i]) {
						return "address differs"
					}
				}
				return ""
			}})
		m, mclass := r.addrMap()
		om := ptrTo(m)
		r.process(kase{kind: "KAddrMap", site: "wallet.CloneAddressesMap", class: mclass, shape: fmt.Sprint(len(m)), orig: om,
			clone: func() interface{} { return ptrTo(wallet.CloneAddressesMap(*om)) },
			equal: func(c interface{}) string {
				if !addrMapsEqual(*om, *c.(*map[wallet.BackendID]wallet.Address)) {
					return "address maps differ"
				}
				return ""
			}})
		ps, pclass := r.parts(r.dim(), true)
		op := ptrTo(ps)
		r.process(kase{kind: "KParts", site: "channel.CloneAddresses", class: pclass, shape: fmt.Sprint(len(ps)), orig: op,
			clone: func() interface{} { return ptrTo(channel.CloneAddresses(*op)) },
			equal: func(c interface{}) string {
				cl := *c.(*[]map[wallet.BackendID]wallet.Address)
				if len(cl) != len(*op) {
					return "length differs"
				}
				for i := range cl {
					if !addrMapsEqual(cl[i], (*op)[i]) {
						return "participant differs"
					}
				}
				return ""
			}})
	}
	// Params.Clone
	{
		p, class := r.params(r.dim())
		o := ptrTo(p)
		r.process(kase{kind: "KParams", site: "channel.Params.Clone", class: class, shape: fmt.Sprint(len(p.Parts)), orig: o,
			clone: func() interface{} { return ptrTo((*o).Clone()) },
			equal: func(c interface{}) string { return paramsEqual(*o, *c.(**channel.Params)) }})
	}
}

// invalid values: the Clone methods dereference nil here; model and code must agree that they panic
func (r *runner) invalid() {
	g := r.g
	{
		row := r.row(1 + r.dim())
		row[g.R.Intn(len(row))] = nil
		o := ptrTo(row)
		r.process(kase{kind: "KBalRow", site: "channel.CloneBals", class: "nil-int", shape: fmt.Sprint(len(row)), orig: o, mayPanic: true,
			clone: func() interface{} { return ptrTo(channel.CloneBals(*o)) }})
	}
	{
		a, _ := r.alloc(1+g.R.Intn(3), 1+g.R.Intn(3), 1+g.R.Intn(2))
		bad := r.row(1 + len(a.Assets))
		bad[g.R.Intn(len(bad))] = nil
		a.Locked = append(a.Locked, channel.SubAlloc{ID: g.ID(), Bals: bad})
		o := ptrTo(a)
		r.process(kase{kind: "KAlloc", site: "channel.Allocation.Clone", class: "nil-int-locked", shape: "-", orig: o, mayPanic: true,
			clone: func() interface{} { return ptrTo(o.Clone()) }})
	}
	{
		s, _ := r.state()
		s.Data = nil
		o := ptrTo(s)
		r.process(kase{kind: "KState", site: "channel.State.Clone", class: "nil-data", shape: "-", orig: o, mayPanic: true,
			clone: func() interface{} { return ptrTo((*o).Clone()) }})
	}
	{
		p, _ := r.params(2)
		q := &channel.Params{ChallengeDuration: p.ChallengeDuration, Parts: p.Parts, App: p.App, Nonce: nil, Aux: p.Aux}
		o := ptrTo(q)
		r.process(kase{kind: "KParams", site: "channel.Params.Clone", class: "nil-nonce", shape: "-", orig: o, mayPanic: true,
			clone: func() interface{} { return ptrTo((*o).Clone()) }})
	}
	{
		m := map[wallet.BackendID]wallet.Address{0: r.addr(), 1: nil}
		o := ptrTo(m)
		r.process(kase{kind: "KAddrMap", site: "wallet.CloneAddressesMap", class: "nil-address", shape: "2", orig: o, mayPanic: true,
			clone: func() interface{} { return ptrTo(wallet.CloneAddressesMap(*o)) }})
	}
	{
		a := (*simwallet.Address)(&ecdsa.PublicKey{Curve: (*ecdsa.PublicKey)(r.addr().(*simwallet.Address)).Curve, X: big.NewInt(5)})
		var wa wallet.Address = a
		o := ptrTo(wa)
		r.process(kase{kind: "KAddr", site: "wallet.CloneAddress", class: "nil-coordinate", shape: "-", orig: o, mayPanic: true,
			clone: func() interface{} { return ptrTo(wallet.CloneAddress(*o)) }})
	}
}

func addrMapsEqual(a, b map[wallet.BackendID]wallet.Address) bool {
	if len(a) != len(b) {
		return false
	}
	for k, x := range a {
		y, ok := b[k]
		if !ok || !x.Equal(y) {
			return false
		}
	}
	return true
}

func stateShape(s *channel.State) string {
	if s == nil {
		return "nil"
	}
	np := 0
	if len(s.Balances) > 0 {
		np = len(s.Balances[0])
	}
	return fmt.Sprintf("%dx%dx%d", len(s.Assets), np, len(s.Locked))
}

func stateEqual(a, b *channel.State) string {
	if a == nil || b == nil {
		if a != b {
			return "one state is nil"
		}
		return ""
	}
	if err := a.Equal(b); err != nil {
		return "State.Equal: " + err.Error()
	}
	if a.Valid() == nil {
		return encEqual(*a, *b)
	}
	return ""
}

func sigsEqual(a, b []wallet.Sig) string {
	if len(a) != len(b) || (a == nil) != (b == nil) {
		return "signature lists differ in length or nil-ness"
	}
	for i := range a {
		if (a[i] == nil) != (b[i] == nil) || !bytes.Equal(a[i], b[i]) {
			return fmt.Sprintf("signature %d differs", i)
		}
	}
	return ""
}

func paramsEqual(a, b *channel.Params) string {
	if a.ID() != b.ID() {
		return "ids differ"
	}
	if a.ChallengeDuration != b.ChallengeDuration || a.LedgerChannel != b.LedgerChannel || a.VirtualChannel != b.VirtualChannel ||
		a.Aux != b.Aux || a.Nonce.Cmp(b.Nonce) != 0 || a.App != b.App || len(a.Parts) != len(b.Parts) {
		return "fields differ"
	}
	for i := range a.Parts {
		if !addrMapsEqual(a.Parts[i], b.Parts[i]) {
			return "participants differ"
		}
	}
	// the native encoding iterates Go maps: it is a function of the value only for single-backend participants
	valid := len(a.Parts) >= 2
	for _, m := range a.Parts {
		valid = valid && len(m) == 1
	}
	if valid {
		return encEqual(a, b)
	}
	return ""
}

func txEqual(a, b channel.Transaction) string {
	if s := stateEqual(a.State, b.State); s != "" {
		return s
	}
	return sigsEqual(a.Sigs, b.Sigs)
}

// ---------------------------------------------------------------- machines and persistence snapshots

// srcView is what a channel.Source hands out, in the field order of persistence.chSource.
type srcView struct {
	Idx     channel.Index
	Params  *channel.Params
	Staging channel.Transaction
	Current channel.Transaction
	Phase   channel.Phase
}

func view(s channel.Source) srcView {
	return srcView{s.Idx(), s.Params(), s.StagingTX(), s.CurrentTX(), s.Phase()}
}

func sourceEqual(a, b channel.Source) string {
	if a.Idx() != b.Idx() || a.Phase() != b.Phase() || a.ID() != b.ID() {
		return "idx, phase or id differ"
	}
	if s := paramsEqual(a.Params(), b.Params()); s != "" {
		return "params: " + s
	}
	if s := txEqual(a.StagingTX(), b.StagingTX()); s != "" {
		return "staging: " + s
	}
	if s := txEqual(a.CurrentTX(), b.CurrentTX()); s != "" {
		return "current: " + s
	}
	return ""
}

type fromSrc struct {
	View   srcView
	Peers  []map[wallet.BackendID]wire.Address
	Parent *channel.ID
}

func (r *runner) machineCases(c *mach.Ctx, m *channel.StateMachine, class string) {
	g := r.g
	shape := fmt.Sprintf("n%d/%s/%v/%v/%v", c.N, m.Phase(), m.StagingTX().State != nil, m.CurrentTX().State != nil, len(m.StagingTX().Sigs))
	o := ptrTo(m)
	r.process(kase{kind: "KSM", site: "channel.StateMachine.Clone", class: class, shape: shape, orig: o,
		clone: func() interface{} { return ptrTo((*o).Clone()) },
		equal: func(cl interface{}) string { return sourceEqual(*o, *cl.(**channel.StateMachine)) }})
	if g.R.Intn(3) == 0 {
		v := ptrTo(view(m))
		r.process(kase{kind: "KSource", site: "persistence.CloneSource", class: class, shape: shape, orig: v,
			clone: func() interface{} { return ptrTo(persistence.CloneSource(m)) },
			equal: func(cl interface{}) string { return sourceEqual(m, *cl.(*channel.Source)) }})
	}
	if g.R.Intn(3) == 0 {
		var peers []map[wallet.BackendID]wire.Address
		if g.R.Intn(4) > 0 {
			for i := 0; i < c.N; i++ {
				peers = append(peers, map[wallet.BackendID]wire.Address{0: simple.NewAddress(fmt.Sprintf("peer%d", i))})
			}
		}
		var parent *channel.ID
		if g.R.Intn(2) == 0 {
			id := g.ID()
			parent = &id
		}
		f := &fromSrc{view(m), peers, parent}
		r.process(kase{kind: "KFromSource", site: "persistence.FromSource", class: class, shape: shape, orig: f,
			clone: func() interface{} { return ptrTo(persistence.FromSource(m, peers, parent)) },
			equal: func(cl interface{}) string { return sourceEqual(m, *cl.(**persistence.Channel)) },
			partial: func(p interface{}) interface{} {
				switch x := p.(type) {
				case *fromSrc:
					return &x.View
				case **persistence.Channel:
					return ptrTo(view(*x))
				}
				panic("partial")
			}})
	}
}

// happyPath opens a channel and runs `updates` complete update rounds on a fresh machine, so that the
// machine holds a history of previous transactions, a fully signed current one and (at the clone points
// in the middle of a round) a staged one with a partial signature set.
func (r *runner) happyPath(c *mach.Ctx, updates int) {
	m, err := channel.NewStateMachine(c.AccMap(c.Me), *c.Params)
	if err != nil {
		panic(err)
	}
	must := func(o mach.Op) {
		if out, _ := c.Apply(m, o); out != "OK" && out != "OKSig" {
			panic("c19: happy path step " + o.Kind + " answered " + out)
		}
	}
	signAll := func(cloneAt int) {
		for i := 0; i < c.N; i++ {
			if i == cloneAt {
				r.machineCases(c, m, "mid-round/"+c.Kind)
			}
			if i == c.Me {
				must(mach.Op{Kind: "Sig"})
			} else {
				must(mach.Op{Kind: "AddSig", Idx: i, Sig: c.Sign(i, m.StagingState())})
			}
		}
	}
	st := c.Base(0, false)
	must(mach.Op{Kind: "Init", Alloc: &st.Allocation, Data: st.Data})
	signAll(-1)
	must(mach.Op{Kind: "EnableInit"})
	must(mach.Op{Kind: "SetFunded"})
	for u := 0; u < updates; u++ {
		must(mach.Op{Kind: "Update", S: c.Succ(m.CurrentTX().State, c.Me, false), Actor: c.Me})
		at := -1
		if u == updates-1 {
			at = 1 + r.g.R.Intn(c.N-1)
		}
		signAll(at)
		must(mach.Op{Kind: "EnableUpdate"})
	}
	r.machineCases(c, m, "history/"+c.Kind)
}

func (r *runner) machines(count, maxLen int) {
	g := r.g
	kinds := []string{"none", "pay", "mock"}
	for k := 0; k < count; k++ {
		n := 2 + g.R.Intn(2)
		c := mach.NewCtx(g, n, g.R.Intn(n), kinds[g.R.Intn(3)])
		m, err := channel.NewStateMachine(c.AccMap(c.Me), *c.Params)
		if err != nil {
			panic(err)
		}
		r.machineCases(c, m, "fresh/"+c.Kind)
		L := 5 + g.R.Intn(maxLen)
		for i := 0; i < L; i++ {
			o := c.RandomOp(m)
			out, _ := c.Apply(m, o)
			if out != "ERR" && (g.R.Intn(4) == 0 || i == L-1) {
				r.machineCases(c, m, "after-ops/"+c.Kind)
			}
		}
		r.happyPath(c, 2+g.R.Intn(2))
		// an abstract state the sequences rarely stop in: staged transaction with a partial signature set
		cur := c.SignedTx(c.Base(3, false), 1<<uint(n)-1)
		stg := c.SignedTx(c.Succ(cur.State, 0, g.R.Intn(2) == 0), g.R.Intn(1<<uint(n)))
		rm := c.Restore(channel.Signing, stg, cur)
		r.machineCases(c, rm, "restored-signing/"+c.Kind)
	}
}

func (r *runner) actionMachines(count int) {
	g := r.g
	for k := 0; k < count; k++ {
		n := 2 + g.R.Intn(3)
		c := mach.NewCtx(g, n, g.R.Intn(n), "mock")
		m, err := channel.NewActionMachine(c.AccMap(c.Me), *c.Params)
		if err != nil {
			panic(err)
		}
		staged := 0
		for i := 0; i < n; i++ {
			if g.R.Intn(2) == 0 {
				if m.AddAction(channel.Index(i), channel.NewMockOp(channel.OpValid)) == nil {
					staged++
				}
			}
		}
		o := ptrTo(m)
		r.process(kase{kind: "KAM", site: "channel.ActionMachine.Clone", class: "init-acting", shape: fmt.Sprintf("n%d/%d", n, staged), orig: o,
			clone: func() interface{} { return ptrTo((*o).Clone()) },
			equal: func(cl interface{}) string { return sourceEqual(*o, *cl.(**channel.ActionMachine)) }})
	}
}

// driveApp is an ActionApp that lets an ActionMachine get past InitActing (the in-repo MockApp's
// InitState returns an empty allocation): actions stay MockOps, Def/NewData/NewAction are the mock app's.
type driveApp struct {
	channel.MockApp
	c *mach.Ctx
}

func (a *driveApp) ValidAction(*channel.Params, *channel.State, channel.Index, channel.Action) error {
	return nil
}

func (a *driveApp) InitState(p *channel.Params, acts []channel.Action) (channel.Allocation, channel.Data, error) {
	al := channel.Allocation{Assets: a.c.Assets, Backends: make([]wallet.BackendID, len(a.c.Assets))}
	al.Balances = make(channel.Balances, len(a.c.Assets))
	for i := range al.Balances {
		al.Balances[i] = make([]channel.Bal, len(acts))
		for j := range acts {
			al.Balances[i][j] = big.NewInt(int64(10 + i + j))
		}
	}
	return al, channel.NewMockOp(channel.OpValid), nil
}

func (a *driveApp) ApplyActions(p *channel.Params, s *channel.State, acts []channel.Action) (*channel.State, error) {
	n := s.Clone()
	n.Version++
	return n, nil
}

// drivenActionMachines clones action machines in the states an operation sequence reaches after
// InitActing: staged initial state, partial and full signature sets, funded, actions staged for an
// update, staged update, after complete update rounds (history of previous transactions).
func (r *runner) drivenActionMachines(count int) {
	g := r.g
	for k := 0; k < count; k++ {
		n := 2 + g.R.Intn(2)
		c := mach.NewCtx(g, n, g.R.Intn(n), "mock")
		c.Params.App = &driveApp{MockApp: *cv.MockApp, c: c}
		m, err := channel.NewActionMachine(c.AccMap(c.Me), *c.Params)
		if err != nil {
			panic(err)
		}
		snapAt := func(class string) {
			o := ptrTo(m)
			r.process(kase{kind: "KAM", site: "channel.ActionMachine.Clone", class: class, shape: fmt.Sprintf("n%d", n), orig: o,
				clone: func() interface{} { return ptrTo((*o).Clone()) },
				equal: func(cl interface{}) string { return sourceEqual(*o, *cl.(**channel.ActionMachine)) }})
		}
		must := func(err error) {
			if err != nil {
				panic(err)
			}
		}
		signAll := func(partialAt int) {
			_, err := m.Sig()
			must(err)
			for i := 0; i < n; i++ {
				if i == c.Me {
					continue
				}
				if i == partialAt {
					snapAt("driven/partial-sigs")
				}
				must(m.AddSig(channel.Index(i), c.Sign(i, m.StagingState())))
			}
		}
		for i := 0; i < n; i++ {
			must(m.AddAction(channel.Index(i), channel.NewMockOp(channel.OpValid)))
		}
		must(m.Init())
		snapAt("driven/init-signing")
		signAll(g.R.Intn(n))
		snapAt("driven/init-signed")
		must(m.EnableInit())
		must(m.SetFunded())
		snapAt("driven/acting")
		rounds := 1 + g.R.Intn(3)
		for u := 0; u < rounds; u++ {
			for i := 0; i < n; i++ {
				if g.R.Intn(3) > 0 {
					must(m.AddAction(channel.Index(i), channel.NewMockOp(channel.MockOp(g.R.Intn(3)))))
				}
			}
			snapAt("driven/acting-actions")
			must(m.Update())
			snapAt("driven/signing")
			signAll(g.R.Intn(n))
			must(m.EnableUpdate())
		}
		snapAt("driven/history")
	}
}

// Run generates the inputs, runs the real Clone methods, checks the oracle and writes the cases.
func Run(seed int64, tier, out string) {
	hx.Seed(seed)
	g := &cv.Gen{R: rand.New(rand.NewSource(hx.Rng.Int63()))}
	res := hx.NewResult("C19", seed, tier)
	res.Rule = "every cloneable type (balance rows, index maps, balances, allocations, states, signature lists, transactions, addresses, address maps, " +
		"participant lists, parameters, state/action machines, persistence snapshots) with dimensions 0..5, nil/empty slices, locked funds with and without index maps, " +
		"partial signature sets, internal aliasing, machines after random operation sequences; distinct = (type, generator class, dimensions, outcome)"
	per := 24
	if tier == "thorough" {
		per = 64
	}
	w := hx.NewCaseWriter(out, "Run.Compare_C19", per)
	res.PerFile = per
	r := &runner{g: g, res: res, w: w}
	curve := (*ecdsa.PublicKey)(g.Account().Address().(*simwallet.Address)).Curve
	r.curve = curve
	r.curveKey = sharedKey(reflect.ValueOf(&curve).Elem())
	rounds, nm, ml, na := 20, 6, 24, 4
	if tier == "thorough" {
		rounds, nm, ml, na = 500, 100, 80, 50
	}
	for i := 0; i < rounds; i++ {
		r.simple(i)
		if i%6 == 0 {
			r.invalid()
		}
	}
	r.machines(nm, ml)
	r.actionMachines(na)
	r.drivenActionMachines(na)
	res.Samples = append(res.Samples, map[string]interface{}{"writes_applied_by_the_observation_oracle": r.writes})
	w.Close()
	res.Write(out)
}
