package strictledger

import (
	"fmt"
	"math/big"
	"os"
	"path/filepath"
	"strings"

	"perun.network/go-perun/apps/payment"
	"perun.network/go-perun/channel"
	"perun.network/go-perun/wallet"
	"verif/harness/internal/cv"
	"verif/harness/internal/hx"
)

// Tables interns parameters, states and participant keys of one case and renders ledger calls as
// terms of Run/Compare_Ledger.v.
type Tables struct {
	params  []*channel.Params
	pIdx    map[channel.ID]int
	sts     []string
	stIdx   map[string]int
	addrs   []wallet.Address
	sigMemo map[string]string
}

func NewTables() *Tables {
	return &Tables{pIdx: map[channel.ID]int{}, stIdx: map[string]int{}, sigMemo: map[string]string{}}
}

// Tok is the model token of a participant key (1-based; 0 is nobody).
func (t *Tables) Tok(a wallet.Address) uint64 {
	if a == nil {
		return 0
	}
	for i, x := range t.addrs {
		if x.Equal(a) {
			return uint64(i + 1)
		}
	}
	t.addrs = append(t.addrs, a)
	return uint64(len(t.addrs))
}

func (t *Tables) P(p *channel.Params) int {
	id := p.ID()
	if i, ok := t.pIdx[id]; ok {
		return i
	}
	for i := range p.Parts {
		t.Tok(partAddr(p, i))
	}
	t.pIdx[id] = len(t.params)
	t.params = append(t.params, p)
	return len(t.params) - 1
}

// PByID is the index of known parameters by channel id (-1 if unknown).
func (t *Tables) PByID(id channel.ID) int {
	if i, ok := t.pIdx[id]; ok {
		return i
	}
	return -1
}

func (t *Tables) St(s *channel.State) int {
	term := cv.State(s)
	if i, ok := t.stIdx[term]; ok {
		return i
	}
	t.stIdx[term] = len(t.sts)
	t.sts = append(t.sts, term)
	return len(t.sts) - 1
}

func appKind(a channel.App) string {
	switch {
	case channel.IsNoApp(a):
		return "None"
	default:
		if _, ok := a.(*payment.App); ok {
			return "(Some KPay)"
		}
		if _, ok := a.(*channel.MockApp); ok {
			return "(Some KMock)"
		}
		if _, ok := a.(channel.MockApp); ok {
			return "(Some KMock)"
		}
	}
	panic(fmt.Sprintf("strictledger: unknown app %T", a))
}

func (t *Tables) paramsTerm(p *channel.Params) string {
	id := p.ID()
	parts := make([]string, len(p.Parts))
	for i := range parts {
		parts[i] = hx.N(t.Tok(partAddr(p, i)))
	}
	return hx.App("mkLP", hx.Hex(id[:]), hx.List(parts), hx.N(p.ChallengeDuration), appKind(p.App), hx.Bool(p.LedgerChannel))
}

func (t *Tables) ParamsTable() string {
	return hx.ListOf(t.params, t.paramsTerm)
}

func (t *Tables) StateTable() string { return hx.List(t.sts) }

// SigTok renders a signature attached to state s: the token of the known key under which it verifies.
func (t *Tables) SigTok(s *channel.State, sig wallet.Sig) string {
	if sig == nil {
		return "None"
	}
	si := t.St(s)
	key := fmt.Sprintf("%d/%x", si, []byte(sig))
	if r, ok := t.sigMemo[key]; ok {
		return r
	}
	r := "(Some (TJunk 0))"
	for i, a := range t.addrs {
		if verify(a, s, sig) {
			r = fmt.Sprintf("(Some (TSig %d %d))", i+1, si)
			break
		}
	}
	t.sigMemo[key] = r
	return r
}

func (t *Tables) rawTok(s *channel.State, sig wallet.Sig) string {
	r := t.SigTok(s, sig)
	if r == "None" {
		return "(TJunk 0)"
	}
	return strings.TrimSuffix(strings.TrimPrefix(r, "(Some "), ")")
}

func (t *Tables) Tx(x SignedTx) string {
	sg := make([]string, len(x.Sigs))
	for i, g := range x.Sigs {
		sg[i] = t.SigTok(x.State, g)
	}
	return fmt.Sprintf("(%d%%nat, %s)", t.St(x.State), hx.List(sg))
}

func u64s(l []uint64) string { return hx.ListOf(l, hx.N) }

// Op renders the operation of a call.
func (t *Tables) Op(c Call) string {
	switch c.Kind {
	case "deposit":
		return hx.App("RDeposit", hx.Nat(t.P(c.Params)), u64s(c.Assets), hx.N(uint64(c.Idx)), hx.N(uint64(c.Acct)), hx.ListOf(c.Amts, hx.Z))
	case "register":
		subs := make([]string, len(c.Subs))
		for i, s := range c.Subs {
			subs[i] = fmt.Sprintf("(%s, %s)", hx.Nat(t.P(s.Params)), t.Tx(s))
		}
		return hx.App("RRegister", hx.Nat(t.P(c.Params)), t.Tx(c.Tx), hx.List(subs))
	case "progress":
		return hx.App("RProgress", hx.Nat(t.P(c.Params)), hx.Nat(t.St(c.Old)), hx.Nat(t.St(c.Tx.State)), hx.N(uint64(c.Actor)), t.rawTok(c.Tx.State, c.Sig))
	case "conclude":
		return hx.App("RConclude", hx.Nat(t.P(c.Params)), hx.Nat(t.St(c.Tx.State)),
			hx.ListOf(c.SubSts, func(s *channel.State) string { return hx.Nat(t.St(s)) }))
	case "concludefinal":
		return hx.App("RConcludeFinal", hx.Nat(t.P(c.Params)), t.Tx(c.Tx))
	case "withdraw":
		return hx.App("RWithdraw", hx.Nat(t.P(c.Params)), hx.N(uint64(c.Idx)), hx.N(t.Tok(c.Signer)), hx.N(uint64(c.Acct)))
	case "tick":
		return hx.App("RTick", hx.N(c.N))
	}
	panic("unknown call kind " + c.Kind)
}

func (t *Tables) ev(e Event) string {
	p := t.PByID(e.ID)
	if p < 0 {
		panic("event for unknown channel")
	}
	switch e.Kind {
	case EvRegistered:
		return fmt.Sprintf("RvReg %d %d %d", p, e.Version, e.Timeout)
	case EvProgressed:
		return fmt.Sprintf("RvProg %d %d %d", p, e.Version, e.Timeout)
	default:
		return fmt.Sprintf("RvConc %d %d", p, e.Version)
	}
}

// Out renders the observed result of a call.
func (t *Tables) Out(c Call) string {
	if c.Code != OK {
		return fmt.Sprintf("RLErr %d", c.Code)
	}
	return "RLOk " + hx.ListOf(c.Events, t.ev)
}

func bools(l []bool) string { return hx.ListOf(l, hx.Bool) }

func balsTerm(b [][]*big.Int) string {
	return hx.ListOf(b, func(r []*big.Int) string { return hx.ListOf(r, hx.Z) })
}

func AccountsTerm(acc []AccEntry) string {
	return hx.ListOf(acc, func(e AccEntry) string {
		return fmt.Sprintf("((%d, %d), %s)", e.K.Acc, e.K.Asset, hx.Z(e.V))
	})
}

// Snapshot renders the whole ledger state.
func (t *Tables) Snapshot(c *Core) string {
	funds := hx.ListOf(c.Funds, func(f *Fund) string {
		return hx.App("mkRF", hx.Nat(t.PByID(f.ID)), u64s(f.Assets), balsTerm(f.Hold), bools(f.Dep), hx.Bool(f.Settled), bools(f.Wd))
	})
	disps := hx.ListOf(c.Disp, func(d *Dispute) string {
		return hx.App("mkRD", hx.Nat(t.P(d.Params)), hx.Nat(t.St(d.State)), hx.N(d.Timeout), hx.N(uint64(d.Phase)))
	})
	return hx.App("mkRS", hx.N(c.Clock), AccountsTerm(c.Acc), funds, disps)
}

// ---------- a case writer for several comparison modules in one output directory ----------

// Writer shards cases of one Coq module into files cases_<prefix>NNN.v; the case numbering is global
// across the writers that share Counter.
type Writer struct {
	Dir, Module, Prefix string
	PerFile             int
	Counter             *int
	cur                 []string
	base                int
	nfiles              int
}

func (w *Writer) Add(term string) int {
	if len(w.cur) == 0 {
		w.base = *w.Counter
	}
	w.cur = append(w.cur, term)
	idx := *w.Counter
	*w.Counter++
	if len(w.cur) >= w.PerFile {
		w.Flush()
	}
	return idx
}

// Flush must be called before another writer sharing the counter adds cases.
func (w *Writer) Flush() {
	if len(w.cur) == 0 {
		return
	}
	var sb strings.Builder
	fmt.Fprintf(&sb, "From V Require Import %s.\nOpen Scope list_scope.\n", w.Module)
	fmt.Fprintf(&sb, "Definition cases := [\n%s\n].\n", strings.Join(w.cur, ";\n"))
	fmt.Fprintf(&sb, "Definition M := Eval vm_compute in mismatches %d%%nat cases.\nPrint M.\n", w.base)
	name := filepath.Join(w.Dir, fmt.Sprintf("cases_%s%03d.v", w.Prefix, w.nfiles))
	if err := os.WriteFile(name, []byte(sb.String()), 0o644); err != nil {
		panic(err)
	}
	w.nfiles++
	w.cur = nil
}
