package strictledger

import (
	"context"
	"fmt"
	"math/big"
	"sync"

	"github.com/pkg/errors"

	"perun.network/go-perun/channel"
	"perun.network/go-perun/wallet"
)

// Call is one core operation performed through the ledger, in the order the ledger serialised them.
type Call struct {
	Seq    int
	Tag    string // who called: "c0" (client 0), "w0" (watcher of client 0), "adv", "clock"
	Kind   string // deposit, register, progress, conclude, concludefinal, withdraw, tick
	Params *channel.Params
	Tx     SignedTx
	Subs   []SignedTx       // register
	SubSts []*channel.State // conclude
	Old    *channel.State   // progress
	Actor  channel.Index
	Sig    wallet.Sig
	Idx    int
	Signer wallet.Address
	Acct   Account
	Assets []uint64
	Amts   []*big.Int
	N      uint64
	Code   int
	Events []Event
	Clock  uint64 // clock before the call
}

// Ledger is the strict ledger with logical time, subscriptions and blocking calls.
type Ledger struct {
	mu      sync.Mutex
	cond    *sync.Cond
	core    *Core
	subs    map[channel.ID][]*Sub
	latest  map[channel.ID]Event
	waiters int
	seq     int
	// OnCall is invoked under the ledger mutex for every core operation (the T3 log).
	OnCall func(Call)
}

func New() *Ledger {
	l := &Ledger{core: &Core{}, subs: map[channel.ID][]*Sub{}, latest: map[channel.ID]Event{}}
	l.cond = sync.NewCond(&l.mu)
	return l
}

// Core gives access to the sequential state (call with the ledger quiescent or under Locked).
func (l *Ledger) Locked(f func(c *Core)) {
	l.mu.Lock()
	defer l.mu.Unlock()
	f(l.core)
}

func (l *Ledger) SetBalance(a Account, asset uint64, v *big.Int) {
	l.Locked(func(c *Core) { c.SetBalance(AccKey{a, asset}, v) })
}

func (l *Ledger) Balance(a Account, asset uint64) *big.Int {
	var v *big.Int
	l.Locked(func(c *Core) { v = c.Balance(AccKey{a, asset}) })
	return v
}

func (l *Ledger) Clock() uint64 {
	l.mu.Lock()
	defer l.mu.Unlock()
	return l.core.Clock
}

// Waiters is the number of goroutines blocked until the clock advances.
func (l *Ledger) Waiters() int {
	l.mu.Lock()
	defer l.mu.Unlock()
	return l.waiters
}

// record and dispatch; must hold mu
func (l *Ledger) done(c Call, evs []Event, code int) {
	c.Seq = l.seq
	l.seq++
	c.Code, c.Events = code, evs
	if l.OnCall != nil {
		l.OnCall(c)
	}
	for _, e := range evs {
		l.latest[e.ID] = e
		for _, s := range l.subs[e.ID] {
			s.push(e)
		}
	}
	l.cond.Broadcast()
}

// Tick advances the logical clock.
func (l *Ledger) Tick(n uint64) {
	l.mu.Lock()
	defer l.mu.Unlock()
	c := Call{Tag: "clock", Kind: "tick", N: n, Clock: l.core.Clock}
	l.core.Tick(n)
	l.done(c, nil, OK)
}

// waitClock blocks until the clock changes or ctx is done; must hold mu.
func (l *Ledger) waitClock(ctx context.Context) error {
	if err := ctx.Err(); err != nil {
		return err
	}
	stop := context.AfterFunc(ctx, func() {
		l.mu.Lock()
		l.cond.Broadcast()
		l.mu.Unlock()
	})
	defer stop()
	l.waiters++
	l.cond.Wait()
	l.waiters--
	return ctx.Err()
}

func codeErr(op string, code int) error {
	if code == OK {
		return nil
	}
	return errors.Errorf("strict ledger: %s refused: %s", op, ErrNames[code])
}

// ---------- timeouts ----------

type Timeout struct {
	l *Ledger
	T uint64
}

func (t *Timeout) IsElapsed(context.Context) bool { return t.l.Clock() >= t.T }

func (t *Timeout) Wait(ctx context.Context) error {
	t.l.mu.Lock()
	defer t.l.mu.Unlock()
	for t.l.core.Clock < t.T {
		if err := t.l.waitClock(ctx); err != nil {
			return errors.Wrap(err, "ctx done")
		}
	}
	return nil
}

func (t *Timeout) String() string { return fmt.Sprintf("<logical timeout %d>", t.T) }

// ---------- subscriptions ----------

type Sub struct {
	l       *Ledger
	id      channel.ID
	Tag     string
	queue   []Event
	inNext  bool
	closed  bool
	handled int
}

func (s *Sub) push(e Event) {
	if !s.closed {
		s.queue = append(s.queue, e)
	}
}

func (l *Ledger) toEvent(e Event) channel.AdjudicatorEvent {
	switch e.Kind {
	case EvRegistered:
		return channel.NewRegisteredEvent(e.ID, &Timeout{l, e.Timeout}, e.Version, e.State, e.Sigs)
	case EvProgressed:
		return channel.NewProgressedEvent(e.ID, &Timeout{l, e.Timeout}, e.State, e.Idx)
	default:
		return channel.NewConcludedEvent(e.ID, &channel.ElapsedTimeout{}, e.Version)
	}
}

func (s *Sub) Next() channel.AdjudicatorEvent {
	l := s.l
	l.mu.Lock()
	defer l.mu.Unlock()
	s.inNext = true
	l.cond.Broadcast()
	for len(s.queue) == 0 && !s.closed {
		l.cond.Wait()
	}
	s.inNext = false
	if s.closed {
		return nil
	}
	e := s.queue[0]
	s.queue = s.queue[1:]
	return l.toEvent(e)
}

func (s *Sub) Err() error { return nil }

func (s *Sub) Close() error {
	l := s.l
	l.mu.Lock()
	defer l.mu.Unlock()
	if s.closed {
		return nil
	}
	s.closed = true
	subs := l.subs[s.id]
	for i, x := range subs {
		if x == s {
			l.subs[s.id] = append(append([]*Sub(nil), subs[:i]...), subs[i+1:]...)
			break
		}
	}
	l.cond.Broadcast()
	return nil
}

// Idle reports whether every open subscription with the given tag has an empty queue and its
// reader is blocked in Next (all delivered events have been handled completely).
func (l *Ledger) Idle(tag string) bool {
	l.mu.Lock()
	defer l.mu.Unlock()
	for _, ss := range l.subs {
		for _, s := range ss {
			if s.Tag == tag && !s.closed && (len(s.queue) > 0 || !s.inNext) {
				return false
			}
		}
	}
	return true
}

// ---------- facades ----------

// Handle is what one user of the ledger holds: a ledger account and a tag for the log.
type Handle struct {
	l    *Ledger
	Acct Account
	Tag  string
}

var (
	_ channel.Funder      = (*Handle)(nil)
	_ channel.Adjudicator = (*Handle)(nil)
)

func (l *Ledger) Handle(acct Account, tag string) *Handle { return &Handle{l, acct, tag} }

// Fund deposits the caller's column of the agreement and waits until every participant has deposited
// its column.
func (h *Handle) Fund(ctx context.Context, req channel.FundingReq) error {
	l := h.l
	assets := assetIDs(req.State.Assets)
	amts := make([]*big.Int, len(req.Agreement))
	for a := range req.Agreement {
		amts[a] = new(big.Int).Set(req.Agreement[a][req.Idx])
	}
	l.mu.Lock()
	defer l.mu.Unlock()
	c := Call{Tag: h.Tag, Kind: "deposit", Params: req.Params, Idx: int(req.Idx), Acct: h.Acct, Assets: assets, Amts: amts, Clock: l.core.Clock}
	code := l.core.Deposit(req.Params, assets, int(req.Idx), h.Acct, amts)
	l.done(c, nil, code)
	if code != OK {
		return codeErr("deposit", code)
	}
	for {
		f := l.core.fund(req.Params.ID())
		complete := f != nil
		if f != nil {
			for p := range f.Dep {
				for a := range f.Hold {
					complete = complete && f.Hold[a][p].Cmp(req.Agreement[a][p]) >= 0
				}
			}
		}
		if complete {
			return nil
		}
		if ctx.Err() != nil {
			return channel.NewFundingTimeoutError([]*channel.AssetFundingError{{Asset: 0, TimedOutPeers: []channel.Index{1 - req.Idx}}})
		}
		stop := context.AfterFunc(ctx, func() { l.mu.Lock(); l.cond.Broadcast(); l.mu.Unlock() })
		l.cond.Wait()
		stop()
	}
}

func toSigned(p *channel.Params, tx channel.Transaction) SignedTx {
	return SignedTx{Params: p, State: tx.State, Sigs: tx.Sigs}
}

func (h *Handle) Register(ctx context.Context, req channel.AdjudicatorReq, subs []channel.SignedState) error {
	l := h.l
	t := toSigned(req.Params, req.Tx)
	// entries without a state (the zero SignedState) cannot be looked up: they are dropped and the
	// sub-allocation they were meant for is then missing
	var ss []SignedTx
	for _, s := range subs {
		if s.State != nil && s.Params != nil {
			ss = append(ss, SignedTx{Params: s.Params, State: s.State, Sigs: s.Sigs})
		}
	}
	l.mu.Lock()
	defer l.mu.Unlock()
	c := Call{Tag: h.Tag, Kind: "register", Params: req.Params, Tx: t, Subs: ss, Clock: l.core.Clock}
	evs, code := l.core.Register(t, ss)
	l.done(c, evs, code)
	return codeErr("register", code)
}

func (h *Handle) Progress(ctx context.Context, req channel.ProgressReq) error {
	l := h.l
	l.mu.Lock()
	defer l.mu.Unlock()
	c := Call{Tag: h.Tag, Kind: "progress", Params: req.Params, Old: req.Tx.State, Tx: SignedTx{Params: req.Params, State: req.NewState},
		Actor: req.Idx, Sig: req.Sig, Clock: l.core.Clock}
	evs, code := l.core.Progress(req.Params, req.Tx.State, req.NewState, req.Idx, req.Sig)
	l.done(c, evs, code)
	return codeErr("progress", code)
}

// Withdraw concludes the channel on the caller's state (waiting on the logical clock until that is
// possible) and pays the caller's participant to the caller's ledger account.
func (h *Handle) Withdraw(ctx context.Context, req channel.AdjudicatorReq, subStates channel.StateMap) error {
	l := h.l
	t := toSigned(req.Params, req.Tx)
	// the state map in the canonical order of the tree (pre-order over the locked sub-allocations)
	var subs []*channel.State
	var walk func(s *channel.State, depth int)
	walk = func(s *channel.State, depth int) {
		if depth > len(subStates) {
			return
		}
		for _, la := range s.Locked {
			if sub, ok := subStates[la.ID]; ok && sub != nil {
				subs = append(subs, sub)
				walk(sub, depth+1)
			}
		}
	}
	walk(req.Tx.State, 0)
	var signer wallet.Address
	for _, a := range req.Acc {
		signer = a.Address()
	}
	l.mu.Lock()
	defer l.mu.Unlock()
	for {
		var evs []Event
		var code int
		var c Call
		if req.Tx.IsFinal && len(req.Tx.Locked) == 0 && l.core.DisputeOf(req.Params.ID()) == nil {
			c = Call{Tag: h.Tag, Kind: "concludefinal", Params: req.Params, Tx: t, Clock: l.core.Clock}
			evs, code = l.core.ConcludeFinal(t)
		} else {
			c = Call{Tag: h.Tag, Kind: "conclude", Params: req.Params, Tx: t, SubSts: subs, Clock: l.core.Clock}
			// do not log attempts that only fail because the timeout has not passed: they are retried
			if l.core.ConcludeCode(req.Params, req.Tx.State, subs) == ETimeout {
				if err := l.waitClock(ctx); err != nil {
					return errors.Wrap(err, "waiting for the timeout")
				}
				continue
			}
			evs, code = l.core.Conclude(req.Params, req.Tx.State, subs)
		}
		l.done(c, evs, code)
		if code != OK {
			return codeErr(c.Kind, code)
		}
		break
	}
	c := Call{Tag: h.Tag, Kind: "withdraw", Params: req.Params, Idx: int(req.Idx), Signer: signer, Acct: h.Acct, Clock: l.core.Clock}
	code := l.core.Withdraw(req.Params, int(req.Idx), signer, h.Acct)
	l.done(c, nil, code)
	return codeErr("withdraw", code)
}

func (h *Handle) Subscribe(ctx context.Context, id channel.ID) (channel.AdjudicatorSubscription, error) {
	l := h.l
	l.mu.Lock()
	defer l.mu.Unlock()
	s := &Sub{l: l, id: id, Tag: h.Tag}
	l.subs[id] = append(l.subs[id], s)
	if e, ok := l.latest[id]; ok {
		s.push(e)
	}
	return s, nil
}
