// Package strictledger is the strict reference ledger of the harness: a funder and adjudicator that
// enforces what the Perun contracts enforce (signatures, versions, timeouts, exact funding, one
// withdrawal per participant) on a logical clock.
//
// core.go is the sequential state machine. It is written rule by rule from coq/Model/Ledger.v and is
// compared with it on random operation sequences (Run/Compare_Ledger.v). ledger.go wraps it into
// channel.Funder / channel.Adjudicator with subscriptions and blocking waits.
package strictledger

import (
	"bytes"
	"math"
	"math/big"

	"perun.network/go-perun/channel"
	"perun.network/go-perun/wallet"
)

// Account is a ledger account (not a channel participant key).
type Account uint64

// Error codes (lerr_num of Ledger.v). 0 = success.
const (
	OK = iota
	EParams
	EArgs
	EFunds
	EAlready
	EPhase
	EState
	EVersion
	ETimeout
	ESig
	ESubMissing
	ESubAlloc
	EAssets
	EIndex
	EDepth
	ENotRegistered
	ENotConcluded
	EAuth
	ENoApp
	ETransition
)

var ErrNames = []string{"ok", "EParams", "EArgs", "EFunds", "EAlready", "EPhase", "EState", "EVersion", "ETimeout",
	"ESig", "ESubMissing", "ESubAlloc", "EAssets", "EIndex", "EDepth", "ENotRegistered", "ENotConcluded", "EAuth",
	"ENoApp", "ETransition"}

const (
	PhDispute = iota
	PhForceExec
	PhConcluded
)

const (
	EvRegistered = iota
	EvProgressed
	EvConcluded
)

// Event is an adjudicator event of the core.
type Event struct {
	Kind    int
	ID      channel.ID
	Version uint64
	Timeout uint64
	State   *channel.State
	Sigs    []wallet.Sig
	Idx     channel.Index
}

type AccKey struct {
	Acc   Account
	Asset uint64
}

type AccEntry struct {
	K AccKey
	V *big.Int
}

type Fund struct {
	ID      channel.ID
	Assets  []uint64
	Hold    [][]*big.Int
	Dep     []bool
	Settled bool
	Wd      []bool
}

type Dispute struct {
	Params  *channel.Params
	State   *channel.State
	Sigs    []wallet.Sig
	Timeout uint64
	Phase   int
}

// Core is the ledger state. Slices keep insertion order (the model uses association lists).
type Core struct {
	Clock uint64
	Acc   []AccEntry
	Funds []*Fund
	Disp  []*Dispute
}

// SignedTx is a state with its parameters and signatures.
type SignedTx struct {
	Params *channel.Params
	State  *channel.State
	Sigs   []wallet.Sig
}

// ---------- accounts ----------

func (c *Core) Balance(k AccKey) *big.Int {
	for _, e := range c.Acc {
		if e.K == k {
			return new(big.Int).Set(e.V)
		}
	}
	return new(big.Int)
}

func accAdd(l []AccEntry, k AccKey, d *big.Int) []AccEntry {
	out := make([]AccEntry, len(l), len(l)+1)
	copy(out, l)
	for i, e := range out {
		if e.K == k {
			out[i] = AccEntry{k, new(big.Int).Add(e.V, d)}
			return out
		}
	}
	return append(out, AccEntry{k, new(big.Int).Set(d)})
}

func accGet(l []AccEntry, k AccKey) *big.Int {
	for _, e := range l {
		if e.K == k {
			return e.V
		}
	}
	return new(big.Int)
}

// SetBalance is for setting up the initial accounts only (it is not a ledger operation).
func (c *Core) SetBalance(k AccKey, v *big.Int) {
	cur := accGet(c.Acc, k)
	c.Acc = accAdd(c.Acc, k, new(big.Int).Sub(v, cur))
}

// ---------- lookups ----------

func (c *Core) fund(id channel.ID) *Fund {
	for _, f := range c.Funds {
		if f.ID == id {
			return f
		}
	}
	return nil
}

func (c *Core) FundOf(id channel.ID) *Fund { return c.fund(id) }

func findDisp(D []*Dispute, id channel.ID) (int, *Dispute) {
	for i, d := range D {
		if d.State.ID == id {
			return i, d
		}
	}
	return -1, nil
}

func (c *Core) DisputeOf(id channel.ID) *Dispute {
	_, d := findDisp(c.Disp, id)
	return d
}

func putDisp(D []*Dispute, d *Dispute) []*Dispute {
	out := make([]*Dispute, len(D), len(D)+1)
	copy(out, D)
	if i, _ := findDisp(out, d.State.ID); i >= 0 {
		out[i] = d
		return out
	}
	return append(out, d)
}

// ---------- checks on submitted states ----------

func AssetID(a channel.Asset) (uint64, bool) {
	b, err := a.MarshalBinary()
	if err != nil || len(b) != 8 {
		return 0, false
	}
	var v uint64
	for _, x := range b {
		v = v<<8 | uint64(x)
	}
	return v, true
}

func assetIDs(as []channel.Asset) []uint64 {
	out := make([]uint64, len(as))
	for i, a := range as {
		v, ok := AssetID(a)
		if !ok {
			panic("strictledger: only sim assets are supported")
		}
		out[i] = v
	}
	return out
}

func u64sEqual(a, b []uint64) bool {
	if len(a) != len(b) {
		return false
	}
	for i := range a {
		if a[i] != b[i] {
			return false
		}
	}
	return true
}

func appDef(a channel.App) []byte {
	if channel.IsNoApp(a) {
		return nil
	}
	b, err := a.Def().MarshalBinary()
	if err != nil {
		panic(err)
	}
	return b
}

func appEqual(a, b channel.App) bool {
	na, nb := channel.IsNoApp(a), channel.IsNoApp(b)
	if na || nb {
		return na && nb
	}
	return bytes.Equal(appDef(a), appDef(b))
}

func dataBytes(d channel.Data) []byte {
	b, err := d.MarshalBinary()
	if err != nil {
		panic(err)
	}
	return b
}

func balsEqual(a, b []channel.Bal) bool {
	if len(a) != len(b) {
		return false
	}
	for i := range a {
		if a[i].Cmp(b[i]) != 0 {
			return false
		}
	}
	return true
}

func subAllocsEqual(a, b []channel.SubAlloc) bool {
	if len(a) != len(b) {
		return false
	}
	for i := range a {
		if a[i].ID != b[i].ID || !balsEqual(a[i].Bals, b[i].Bals) || len(a[i].IndexMap) != len(b[i].IndexMap) {
			return false
		}
		for j := range a[i].IndexMap {
			if a[i].IndexMap[j] != b[i].IndexMap[j] {
				return false
			}
		}
	}
	return true
}

// StateEqual is state_equal of Channel.v, field by field.
func StateEqual(s, t *channel.State) bool {
	if s.ID != t.ID || s.Version != t.Version || !appEqual(s.App, t.App) {
		return false
	}
	if len(s.Backends) != len(t.Backends) {
		return false
	}
	for i := range s.Backends {
		if s.Backends[i] != t.Backends[i] {
			return false
		}
	}
	if !u64sEqual(assetIDs(s.Assets), assetIDs(t.Assets)) || len(s.Balances) != len(t.Balances) {
		return false
	}
	for i := range s.Balances {
		if !balsEqual(s.Balances[i], t.Balances[i]) {
			return false
		}
	}
	return subAllocsEqual(s.Locked, t.Locked) && bytes.Equal(dataBytes(s.Data), dataBytes(t.Data)) && s.IsFinal == t.IsFinal
}

func numParts(b channel.Balances) int {
	if len(b) == 0 {
		return 0
	}
	return len(b[0])
}

func stateOK(p *channel.Params, s *channel.State) bool {
	return s.ID == p.ID() && s.Valid() == nil && numParts(s.Balances) == len(p.Parts)
}

func partAddr(p *channel.Params, i int) wallet.Address {
	m := p.Parts[i]
	if len(m) != 1 {
		panic("strictledger: single-backend participants only")
	}
	for _, a := range m {
		return a
	}
	return nil
}

func verify(a wallet.Address, s *channel.State, sig wallet.Sig) (ok bool) {
	defer func() {
		if recover() != nil {
			ok = false
		}
	}()
	if sig == nil {
		return false
	}
	v, err := channel.Verify(a, s, sig)
	return err == nil && v
}

func txSigned(p *channel.Params, s *channel.State, sigs []wallet.Sig) bool {
	if len(sigs) != len(p.Parts) {
		return false
	}
	for i := range p.Parts {
		if !verify(partAddr(p, i), s, sigs[i]) {
			return false
		}
	}
	return true
}

// ---------- outcome accumulation ----------

func cloneBals(b [][]*big.Int) [][]*big.Int {
	out := make([][]*big.Int, len(b))
	for i := range b {
		out[i] = make([]*big.Int, len(b[i]))
		for j := range b[i] {
			out[i][j] = new(big.Int).Set(b[i][j])
		}
	}
	return out
}

func colsOf(b [][]*big.Int) int {
	if len(b) == 0 {
		return 0
	}
	return len(b[0])
}

func imapOK(im []channel.Index, cols, np int) bool {
	if len(im) == 0 {
		return cols <= np
	}
	if len(im) != cols {
		return false
	}
	for _, x := range im {
		if int(x) >= np {
			return false
		}
	}
	return true
}

func rowSums(b [][]*big.Int) []*big.Int {
	out := make([]*big.Int, len(b))
	for i, r := range b {
		out[i] = new(big.Int)
		for _, x := range r {
			out[i].Add(out[i], x)
		}
	}
	return out
}

func mergeSub(parent *channel.State, l channel.SubAlloc, sub *channel.State, subout, out [][]*big.Int) ([][]*big.Int, int) {
	if !u64sEqual(assetIDs(sub.Assets), assetIDs(parent.Assets)) {
		return nil, EAssets
	}
	if !balsEqual(l.Bals, rowSums(subout)) {
		return nil, ESubAlloc
	}
	ok := len(subout) == len(out) && imapOK(l.IndexMap, colsOf(subout), colsOf(out))
	for _, r := range subout {
		ok = ok && len(r) == colsOf(subout)
	}
	for _, r := range out {
		ok = ok && len(r) == colsOf(out)
	}
	if !ok {
		return nil, EIndex
	}
	res := cloneBals(out)
	for a := range res {
		for j, x := range subout[a] {
			k := j
			if len(l.IndexMap) > 0 {
				k = int(l.IndexMap[j])
			}
			res[a][k].Add(res[a][k], x)
		}
	}
	return res, OK
}

func findState(m []*channel.State, id channel.ID) *channel.State {
	for _, s := range m {
		if s.ID == id {
			return s
		}
	}
	return nil
}

func findTx(m []SignedTx, id channel.ID) *SignedTx {
	for i := range m {
		if m[i].State.ID == id {
			return &m[i]
		}
	}
	return nil
}

// OutcomeRec is outcome_rec of Ledger.v.
func OutcomeRec(fuel int, s *channel.State, m []*channel.State) ([][]*big.Int, int) {
	if fuel == 0 {
		return nil, EDepth
	}
	out := cloneBals(s.Balances)
	for _, l := range s.Locked {
		sub := findState(m, l.ID)
		if sub == nil {
			return nil, ESubMissing
		}
		so, e := OutcomeRec(fuel-1, sub, m)
		if e != OK {
			return nil, e
		}
		out, e = mergeSub(s, l, sub, so, out)
		if e != OK {
			return nil, e
		}
	}
	return out, OK
}

// ---------- register ----------

func newTimeout(now uint64, p *channel.Params, s *channel.State) uint64 {
	if s.IsFinal {
		return now
	}
	return now + p.ChallengeDuration
}

func registerSingle(now uint64, D []*Dispute, t SignedTx) ([]*Dispute, []Event, int) {
	s, p := t.State, t.Params
	if !stateOK(p, s) {
		return nil, nil, EParams
	}
	mk := func(to uint64) ([]*Dispute, []Event, int) {
		d := &Dispute{Params: p, State: s.Clone(), Sigs: t.Sigs, Timeout: to, Phase: PhDispute}
		return putDisp(D, d), []Event{{Kind: EvRegistered, ID: s.ID, Version: s.Version, Timeout: to, State: s.Clone(), Sigs: t.Sigs}}, OK
	}
	if _, d := findDisp(D, s.ID); d != nil {
		if StateEqual(d.State, s) {
			return D, nil, OK
		}
		if !(d.State.Version < s.Version) {
			return nil, nil, EVersion
		}
		if d.Phase != PhDispute {
			return nil, nil, EPhase
		}
		if !(now < d.Timeout) {
			return nil, nil, ETimeout
		}
		if !txSigned(p, s, t.Sigs) {
			return nil, nil, ESig
		}
		to := d.Timeout
		if s.IsFinal {
			to = now
		}
		return mk(to)
	}
	if !txSigned(p, s, t.Sigs) {
		return nil, nil, ESig
	}
	return mk(newTimeout(now, p, s))
}

func registerRec(fuel int, now uint64, D []*Dispute, t SignedTx, m []SignedTx) ([]*Dispute, []Event, [][]*big.Int, int) {
	if fuel == 0 {
		return nil, nil, nil, EDepth
	}
	D, evs, e := registerSingle(now, D, t)
	if e != OK {
		return nil, nil, nil, e
	}
	out := cloneBals(t.State.Balances)
	for _, l := range t.State.Locked {
		sub := findTx(m, l.ID)
		if sub == nil {
			return nil, nil, nil, ESubMissing
		}
		if sub.Params.LedgerChannel {
			return nil, nil, nil, EParams
		}
		Db, evb, so, e := registerRec(fuel-1, now, D, *sub, m)
		if e != OK {
			return nil, nil, nil, e
		}
		out, e = mergeSub(t.State, l, sub.State, so, out)
		if e != OK {
			return nil, nil, nil, e
		}
		D, evs = Db, append(evs, evb...)
	}
	return D, evs, out, OK
}

// Register is LRegister.
func (c *Core) Register(t SignedTx, subs []SignedTx) ([]Event, int) {
	if !t.Params.LedgerChannel {
		return nil, EParams
	}
	D, evs, _, e := registerRec(len(subs)+1, c.Clock, c.Disp, t, subs)
	if e != OK {
		return nil, e
	}
	c.Disp = D
	return evs, OK
}

// ---------- conclude ----------

func hasApp(p *channel.Params) bool { return !channel.IsNoApp(p.App) }

func concludeSingle(now uint64, D []*Dispute, s *channel.State) ([]*Dispute, []Event, int) {
	_, d := findDisp(D, s.ID)
	if d == nil {
		return nil, nil, ENotRegistered
	}
	if !StateEqual(d.State, s) {
		return nil, nil, EState
	}
	if d.Phase == PhConcluded {
		return D, nil, OK
	}
	deadline := d.Timeout
	if d.Phase == PhDispute && hasApp(d.Params) {
		deadline = d.Timeout + d.Params.ChallengeDuration
	}
	if !(deadline <= now) {
		return nil, nil, ETimeout
	}
	nd := *d
	nd.Phase = PhConcluded
	return putDisp(D, &nd), []Event{{Kind: EvConcluded, ID: s.ID, Version: s.Version}}, OK
}

func concludeRec(fuel int, now uint64, D []*Dispute, s *channel.State, m []*channel.State) ([]*Dispute, []Event, [][]*big.Int, int) {
	if fuel == 0 {
		return nil, nil, nil, EDepth
	}
	D, evs, e := concludeSingle(now, D, s)
	if e != OK {
		return nil, nil, nil, e
	}
	out := cloneBals(s.Balances)
	for _, l := range s.Locked {
		sub := findState(m, l.ID)
		if sub == nil {
			return nil, nil, nil, ESubMissing
		}
		Db, evb, so, e := concludeRec(fuel-1, now, D, sub, m)
		if e != OK {
			return nil, nil, nil, e
		}
		out, e = mergeSub(s, l, sub, so, out)
		if e != OK {
			return nil, nil, nil, e
		}
		D, evs = Db, append(evs, evb...)
	}
	return D, evs, out, OK
}

func fundDimsOK(f *Fund) bool {
	ok := len(f.Hold) == len(f.Assets) && len(f.Wd) == len(f.Dep)
	for _, r := range f.Hold {
		ok = ok && len(r) == len(f.Dep)
	}
	return ok
}

func outcomeFits(f *Fund, out [][]*big.Int) bool {
	ok := len(out) == len(f.Hold)
	for _, r := range out {
		ok = ok && len(r) == len(f.Dep)
	}
	return ok && balsEqual(rowSums(out), rowSums(f.Hold))
}

func (c *Core) setOutcome(id channel.ID, out [][]*big.Int) {
	f := c.fund(id)
	if f == nil || f.Settled {
		return
	}
	if fundDimsOK(f) && outcomeFits(f, out) {
		f.Hold = cloneBals(out)
	}
	f.Settled = true
}

func (c *Core) IsConcluded(id channel.ID) bool {
	_, d := findDisp(c.Disp, id)
	return d != nil && d.Phase == PhConcluded
}

// Conclude is LConclude.
func (c *Core) Conclude(p *channel.Params, s *channel.State, subs []*channel.State) ([]Event, int) {
	if !(p.LedgerChannel && s.ID == p.ID()) {
		return nil, EParams
	}
	was := c.IsConcluded(p.ID())
	D, evs, out, e := concludeRec(len(subs)+1, c.Clock, c.Disp, s, subs)
	if e != OK {
		return nil, e
	}
	c.Disp = D
	if !was {
		c.setOutcome(p.ID(), out)
	}
	return evs, OK
}

// ConcludeCode is the result code Conclude would return now; it changes nothing.
func (c *Core) ConcludeCode(p *channel.Params, s *channel.State, subs []*channel.State) int {
	if !(p.LedgerChannel && s.ID == p.ID()) {
		return EParams
	}
	_, _, _, e := concludeRec(len(subs)+1, c.Clock, c.Disp, s, subs)
	return e
}

// ConcludeFinal is LConcludeFinal.
func (c *Core) ConcludeFinal(t SignedTx) ([]Event, int) {
	p, s := t.Params, t.State
	if !(p.LedgerChannel && stateOK(p, s)) {
		return nil, EParams
	}
	if !(s.IsFinal && len(s.Locked) == 0) {
		return nil, EArgs
	}
	if _, d := findDisp(c.Disp, p.ID()); d != nil && d.Phase == PhConcluded {
		if !StateEqual(d.State, s) {
			return nil, EState
		}
		return nil, OK
	}
	if !txSigned(p, s, t.Sigs) {
		return nil, ESig
	}
	c.setOutcome(p.ID(), cloneBals(s.Balances))
	c.Disp = putDisp(c.Disp, &Dispute{Params: p, State: s.Clone(), Sigs: t.Sigs, Timeout: c.Clock, Phase: PhConcluded})
	return []Event{{Kind: EvConcluded, ID: s.ID, Version: s.Version}}, OK
}

// ---------- progress ----------

func appRule(p *channel.Params, old, nw *channel.State, actor channel.Index) (ok bool) {
	defer func() {
		if recover() != nil {
			ok = false
		}
	}()
	app, isState := p.App.(channel.StateApp)
	if !isState {
		return false
	}
	return app.ValidTransition(p, old, nw, actor) == nil
}

func chainTransitionOK(p *channel.Params, old, nw *channel.State, actor channel.Index) bool {
	return stateOK(p, nw) &&
		old.Version < math.MaxUint64 && nw.Version == old.Version+1 &&
		!old.IsFinal &&
		appEqual(old.App, nw.App) &&
		u64sEqual(assetIDs(old.Assets), assetIDs(nw.Assets)) &&
		balsEqual(rowSums(old.Balances), rowSums(nw.Balances)) &&
		subAllocsEqual(old.Locked, nw.Locked) &&
		appRule(p, old, nw, actor)
}

// Progress is LProgress.
func (c *Core) Progress(p *channel.Params, old, nw *channel.State, actor channel.Index, sig wallet.Sig) ([]Event, int) {
	_, d := findDisp(c.Disp, p.ID())
	if d == nil {
		return nil, ENotRegistered
	}
	if !(old.ID == p.ID() && StateEqual(d.State, old)) {
		return nil, EState
	}
	switch d.Phase {
	case PhDispute:
		if !(d.Timeout <= c.Clock) {
			return nil, ETimeout
		}
	case PhForceExec:
		if !(c.Clock < d.Timeout) {
			return nil, ETimeout
		}
	default:
		return nil, EPhase
	}
	if !hasApp(p) {
		return nil, ENoApp
	}
	if !(int(actor) < len(p.Parts)) {
		return nil, EArgs
	}
	if !verify(partAddr(p, int(actor)), nw, sig) {
		return nil, ESig
	}
	if !chainTransitionOK(p, old, nw, actor) {
		return nil, ETransition
	}
	to := newTimeout(c.Clock, p, nw)
	c.Disp = putDisp(c.Disp, &Dispute{Params: p, State: nw.Clone(), Timeout: to, Phase: PhForceExec})
	return []Event{{Kind: EvProgressed, ID: nw.ID, Version: nw.Version, Timeout: to, State: nw.Clone(), Idx: actor}}, OK
}

// ---------- deposit / withdraw ----------

func nonneg(l []*big.Int) bool {
	for _, x := range l {
		if x.Sign() < 0 {
			return false
		}
	}
	return true
}

// Deposit is LDeposit.
func (c *Core) Deposit(p *channel.Params, assets []uint64, idx int, from Account, amts []*big.Int) int {
	np := len(p.Parts)
	if !p.LedgerChannel {
		return EParams
	}
	if !(idx >= 0 && idx < np && len(assets) != 0 && len(amts) == len(assets) && nonneg(amts)) {
		return EArgs
	}
	f := c.fund(p.ID())
	isNew := f == nil
	if isNew {
		f = &Fund{ID: p.ID(), Assets: append([]uint64(nil), assets...), Dep: make([]bool, np), Wd: make([]bool, np)}
		f.Hold = make([][]*big.Int, len(assets))
		for a := range f.Hold {
			f.Hold[a] = make([]*big.Int, np)
			for j := range f.Hold[a] {
				f.Hold[a][j] = new(big.Int)
			}
		}
	}
	if !(u64sEqual(f.Assets, assets) && len(f.Dep) == np && fundDimsOK(f)) {
		return EArgs
	}
	if f.Settled {
		return EPhase
	}
	if f.Dep[idx] {
		return EAlready
	}
	acc := c.Acc
	for a, asset := range assets {
		k := AccKey{from, asset}
		if amts[a].Cmp(accGet(acc, k)) > 0 {
			return EFunds
		}
		acc = accAdd(acc, k, new(big.Int).Neg(amts[a]))
	}
	c.Acc = acc
	for a := range assets {
		f.Hold[a][idx] = new(big.Int).Add(f.Hold[a][idx], amts[a])
	}
	f.Dep[idx] = true
	if isNew {
		c.Funds = append(c.Funds, f)
	}
	return OK
}

// Withdraw is LWithdraw: signer is the participant key that authorised the withdrawal.
func (c *Core) Withdraw(p *channel.Params, idx int, signer wallet.Address, to Account) int {
	f := c.fund(p.ID())
	if f == nil || !f.Settled {
		return ENotConcluded
	}
	if !(idx >= 0 && idx < len(p.Parts) && len(f.Wd) == len(p.Parts)) {
		return EArgs
	}
	if signer == nil || !partAddr(p, idx).Equal(signer) {
		return EAuth
	}
	if f.Wd[idx] {
		return EAlready
	}
	for a, asset := range f.Assets {
		amt := new(big.Int)
		if a < len(f.Hold) && idx < len(f.Hold[a]) {
			amt = f.Hold[a][idx]
			f.Hold[a][idx] = new(big.Int)
		}
		c.Acc = accAdd(c.Acc, AccKey{to, asset}, amt)
	}
	f.Wd[idx] = true
	return OK
}

// Tick is LTick.
func (c *Core) Tick(n uint64) { c.Clock += n }

// Total is ledger_total of Ledger.v: everything the ledger holds of one asset.
func (c *Core) Total(asset uint64) *big.Int {
	t := new(big.Int)
	for _, e := range c.Acc {
		if e.K.Asset == asset {
			t.Add(t, e.V)
		}
	}
	for _, f := range c.Funds {
		for a, id := range f.Assets {
			if id == asset && a < len(f.Hold) {
				for _, x := range f.Hold[a] {
					t.Add(t, x)
				}
			}
		}
	}
	return t
}
