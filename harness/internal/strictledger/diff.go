package strictledger

import (
	"fmt"
	"math/big"
	"math/rand"

	simwallet "perun.network/go-perun/backend/sim/wallet"
	"perun.network/go-perun/channel"
	"perun.network/go-perun/wallet"
	"verif/harness/internal/cv"
	"verif/harness/internal/hx"
)

// ---------- a random but consistent world: one ledger channel with sub-channels and histories ----------

type chanW struct {
	params *channel.Params
	accs   []*simwallet.Account
	hist   []*channel.State // increasing versions
	sigs   map[*channel.State][]wallet.Sig
}

type world struct {
	g       *cv.Gen
	r       *rand.Rand
	assets  []channel.Asset
	ids     []uint64
	accs    []*simwallet.Account
	foreign *simwallet.Account
	root    *chanW
	subs    []*chanW // direct sub-channels of the root
	subsub  *chanW   // optional sub-channel of subs[0]
	agree   [][]*big.Int
}

func (w *world) mkParams(accs []*simwallet.Account, app channel.App, ledger bool) *channel.Params {
	parts := make([]map[wallet.BackendID]wallet.Address, len(accs))
	for i, a := range accs {
		parts[i] = map[wallet.BackendID]wallet.Address{0: a.Address()}
	}
	p, err := channel.NewParams(uint64(1+w.r.Intn(4)), parts, app, new(big.Int).SetUint64(w.r.Uint64()), ledger, false, channel.Aux{})
	if err != nil {
		panic(err)
	}
	return p
}

func (w *world) data(app channel.App) channel.Data {
	if _, ok := app.(*channel.MockApp); ok {
		return channel.NewMockOp(channel.OpValid)
	}
	return channel.NoData()
}

func (w *world) sign(c *chanW, s *channel.State) []wallet.Sig {
	if sg, ok := c.sigs[s]; ok {
		return sg
	}
	sg := make([]wallet.Sig, len(c.accs))
	for i, a := range c.accs {
		x, err := channel.Sign(a, s, 0)
		if err != nil {
			panic(err)
		}
		sg[i] = x
	}
	c.sigs[s] = sg
	return sg
}

func (w *world) tx(c *chanW, s *channel.State) SignedTx {
	return SignedTx{Params: c.params, State: s, Sigs: w.sign(c, s)}
}

// pay moves a random amount from one participant to another (sums preserved).
func (w *world) pay(s *channel.State) int {
	np := len(s.Balances[0])
	from := w.r.Intn(np)
	to := (from + 1 + w.r.Intn(np-1)) % np
	for a := range s.Balances {
		if s.Balances[a][from].Sign() > 0 {
			amt := new(big.Int).Add(new(big.Int).Rand(w.r, s.Balances[a][from]), big.NewInt(1))
			s.Balances[a][from] = new(big.Int).Sub(s.Balances[a][from], amt)
			s.Balances[a][to] = new(big.Int).Add(s.Balances[a][to], amt)
		}
	}
	return from
}

func (w *world) succ(c *chanW, f func(s *channel.State)) *channel.State {
	cur := c.hist[len(c.hist)-1]
	s := cur.Clone()
	s.Version = cur.Version + 1
	f(s)
	c.hist = append(c.hist, s)
	return s
}

func (w *world) newChan(accs []*simwallet.Account, app channel.App, ledger bool, bals [][]*big.Int) *chanW {
	c := &chanW{params: w.mkParams(accs, app, ledger), accs: accs, sigs: map[*channel.State][]wallet.Sig{}}
	s := &channel.State{ID: c.params.ID(), Version: 0, App: app, Data: w.data(app),
		Allocation: channel.Allocation{Assets: w.assets, Backends: make([]wallet.BackendID, len(w.assets)), Balances: cloneBals(bals)}}
	c.hist = []*channel.State{s}
	return c
}

// lock moves part of the parent's balances into a sub-allocation and creates the sub-channel with them.
func (w *world) openSub(parent *chanW, subAccs []*simwallet.Account, imap []channel.Index) *chanW {
	cur := parent.hist[len(parent.hist)-1]
	nsub := len(subAccs)
	bals := make([][]*big.Int, len(w.assets))
	w.succ(parent, func(s *channel.State) {
		for a := range bals {
			bals[a] = make([]*big.Int, nsub)
			for j := 0; j < nsub; j++ {
				pj := j
				if len(imap) > 0 {
					pj = int(imap[j])
				}
				have := s.Balances[a][pj]
				amt := big.NewInt(0)
				if have.Sign() > 0 {
					amt = new(big.Int).Rand(w.r, new(big.Int).Add(have, big.NewInt(1)))
				}
				s.Balances[a][pj] = new(big.Int).Sub(have, amt)
				bals[a][j] = amt
			}
		}
	})
	_ = cur
	var app channel.App = channel.NoApp()
	if w.r.Intn(3) == 0 {
		app = cv.PayApp
	}
	sub := w.newChan(subAccs, app, false, bals)
	s := parent.hist[len(parent.hist)-1]
	s.Locked = append(s.Locked, *channel.NewSubAlloc(sub.params.ID(), rowSums(bals), imap))
	return sub
}

func newWorld(g *cv.Gen) *world {
	r := rand.New(rand.NewSource(g.R.Int63()))
	w := &world{g: g, r: r}
	na := 1 + r.Intn(2)
	for len(w.assets) < na {
		a := g.Asset()
		id, _ := AssetID(a)
		dup := false
		for _, x := range w.ids {
			dup = dup || x == id
		}
		if !dup || r.Intn(8) == 0 {
			w.assets = append(w.assets, a)
			w.ids = append(w.ids, id)
		}
	}
	np := 2
	if r.Intn(4) == 0 {
		np = 3
	}
	for i := 0; i < np; i++ {
		w.accs = append(w.accs, g.Account())
	}
	w.foreign = g.Account()
	w.agree = make([][]*big.Int, na)
	for a := range w.agree {
		w.agree[a] = make([]*big.Int, np)
		for p := range w.agree[a] {
			w.agree[a][p] = big.NewInt(int64(r.Intn(200)))
			if r.Intn(10) == 0 {
				w.agree[a][p] = new(big.Int).Lsh(big.NewInt(int64(1+r.Intn(1000))), uint(60+r.Intn(40)))
			}
		}
	}
	var app channel.App = channel.NoApp()
	switch r.Intn(4) {
	case 0:
		app = cv.PayApp
	case 1:
		app = cv.MockApp
	}
	w.root = w.newChan(w.accs, app, true, w.agree)
	// history: payments, sub-channel openings, sub-channel payments
	steps := 1 + r.Intn(5)
	for i := 0; i < steps; i++ {
		switch k := r.Intn(6); {
		case k == 0 && len(w.subs) < 2:
			var imap []channel.Index
			subAccs := w.accs
			if r.Intn(3) == 0 { // virtual-channel style: explicit index map
				imap = make([]channel.Index, 2)
				perm := r.Perm(np)
				imap[0], imap[1] = channel.Index(perm[0]), channel.Index(perm[1])
				subAccs = []*simwallet.Account{w.accs[perm[0]], w.accs[perm[1]]}
			}
			w.subs = append(w.subs, w.openSub(w.root, subAccs, imap))
		case k == 1 && len(w.subs) > 0 && w.subsub == nil:
			w.subsub = w.openSub(w.subs[0], w.subs[0].accs, nil)
		case k == 2 && len(w.subs) > 0:
			c := w.subs[r.Intn(len(w.subs))]
			w.succ(c, func(s *channel.State) { w.pay(s) })
		case k == 3 && w.subsub != nil:
			w.succ(w.subsub, func(s *channel.State) { w.pay(s) })
		default:
			w.succ(w.root, func(s *channel.State) { w.pay(s) })
		}
	}
	if r.Intn(3) == 0 {
		w.succ(w.root, func(s *channel.State) { s.IsFinal = true })
	}
	return w
}

func (w *world) allChans() []*chanW {
	out := append([]*chanW{w.root}, w.subs...)
	if w.subsub != nil {
		out = append(out, w.subsub)
	}
	return out
}

func (w *world) chanOf(id channel.ID) *chanW {
	for _, c := range w.allChans() {
		if c.params.ID() == id {
			return c
		}
	}
	return nil
}

func (w *world) pick(c *chanW) *channel.State {
	// bias towards the newest states
	n := len(c.hist)
	i := n - 1 - w.r.Intn(n)
	if w.r.Intn(3) == 0 {
		i = w.r.Intn(n)
	}
	return c.hist[i]
}

// tree collects signed sub-channel states for the locked sub-allocations of s (recursively).
func (w *world) tree(s *channel.State, newest bool, depth int) []SignedTx {
	var out []SignedTx
	if depth > 3 {
		return nil
	}
	for _, l := range s.Locked {
		c := w.chanOf(l.ID)
		if c == nil {
			continue
		}
		st := c.hist[len(c.hist)-1]
		if !newest {
			st = w.pick(c)
		}
		out = append(out, w.tx(c, st))
		out = append(out, w.tree(st, newest, depth+1)...)
	}
	return out
}

// ---------- one differential case ----------

// diffCase runs a random operation sequence on a fresh Core and returns the Coq term and a class label.
func diffCase(g *cv.Gen, res *hx.Result) (string, string) {
	w := newWorld(g)
	r := w.r
	c := &Core{}
	tb := NewTables()
	for _, ch := range w.allChans() {
		tb.P(ch.params)
	}
	tb.Tok(w.foreign.Address())
	// initial accounts: account i+1 belongs to participant i; some are short of funds
	for p := range w.accs {
		for a, id := range w.ids {
			v := new(big.Int).Add(w.agree[a][p], big.NewInt(int64(r.Intn(50))))
			if r.Intn(12) == 0 && w.agree[a][p].Sign() > 0 {
				v = new(big.Int).Sub(w.agree[a][p], big.NewInt(1))
			}
			c.SetBalance(AccKey{Account(p + 1), id}, v)
		}
	}
	initAcc := AccountsTerm(c.Acc)
	totals := map[uint64]*big.Int{}
	for _, id := range w.ids {
		totals[id] = c.Total(id)
	}
	var ops, outs []string
	kinds := map[string]int{}
	nOK := 0
	do := func(call Call, f func() ([]Event, int)) int {
		call.Clock = c.Clock
		evs, code := f()
		call.Events, call.Code = evs, code
		ops = append(ops, tb.Op(call))
		outs = append(outs, tb.Out(call))
		kinds[call.Kind+"/"+ErrNames[code]]++
		res.Outcomes["ledger/"+call.Kind+"/"+ErrNames[code]]++
		if code == OK {
			nOK++
		}
		// oracle of the ledger itself: conservation per asset
		for _, id := range w.ids {
			if c.Total(id).Cmp(totals[id]) != 0 {
				res.Fail(hx.Failure{Site: "strictledger.Core", InputClass: "ledger/" + call.Kind,
					What: "the strict reference ledger does not conserve an asset (defect of the harness)", Case: -1})
			}
		}
		return code
	}
	root := w.root
	mutSigs := func(t SignedTx) SignedTx {
		switch r.Intn(14) {
		case 0:
			sg := append([]wallet.Sig(nil), t.Sigs...)
			sg[r.Intn(len(sg))] = nil
			t.Sigs = sg
		case 1:
			sg := append([]wallet.Sig(nil), t.Sigs...)
			x, _ := channel.Sign(w.foreign, t.State, 0)
			sg[r.Intn(len(sg))] = x
			t.Sigs = sg
		case 2:
			if len(t.Sigs) > 1 {
				sg := append([]wallet.Sig(nil), t.Sigs...)
				sg[0], sg[1] = sg[1], sg[0]
				t.Sigs = sg
			}
		case 3:
			t.Sigs = t.Sigs[:len(t.Sigs)-1]
		case 4:
			// signatures of another state of the same channel
			if ch := w.chanOf(t.State.ID); ch != nil {
				t.Sigs = w.sign(ch, w.pick(ch))
			}
		}
		return t
	}
	deposit := func(p int) {
		amts := make([]*big.Int, len(w.ids))
		for a := range amts {
			amts[a] = new(big.Int).Set(w.agree[a][p])
		}
		assets := append([]uint64(nil), w.ids...)
		idx, from := p, Account(p+1)
		switch r.Intn(16) {
		case 0:
			idx = len(w.accs)
		case 1:
			amts = amts[:len(amts)-1]
		case 2:
			amts[0] = big.NewInt(-1)
		case 3:
			from = Account(1 + r.Intn(len(w.accs)))
		case 4:
			assets[0]++
		case 5:
			amts[0] = new(big.Int).Add(amts[0], big.NewInt(int64(r.Intn(100))))
		}
		pp := root.params
		if r.Intn(20) == 0 && len(w.subs) > 0 {
			pp = w.subs[0].params
		}
		do(Call{Kind: "deposit", Params: pp, Assets: assets, Idx: idx, Acct: from, Amts: amts}, func() ([]Event, int) {
			return nil, c.Deposit(pp, assets, idx, from, amts)
		})
	}
	register := func() {
		s := w.pick(root)
		t := mutSigs(w.tx(root, s))
		subs := w.tree(s, r.Intn(2) == 0, 0)
		switch r.Intn(12) {
		case 0:
			if len(subs) > 0 {
				subs = subs[:len(subs)-1]
			}
		case 1:
			if len(subs) > 0 {
				i := r.Intn(len(subs))
				subs[i] = mutSigs(subs[i])
			}
		case 2:
			if len(w.subs) > 0 { // a sub-channel registered as if it were a ledger channel
				t = w.tx(w.subs[0], w.pick(w.subs[0]))
			}
		case 3:
			if len(subs) > 0 { // the ledger channel's own parameters for a sub-channel state
				subs[0].Params = root.params
			}
		}
		do(Call{Kind: "register", Params: t.Params, Tx: t, Subs: subs}, func() ([]Event, int) { return c.Register(t, subs) })
	}
	conclude := func() {
		s := w.pick(root)
		if d := c.DisputeOf(root.params.ID()); d != nil && r.Intn(4) != 0 {
			s = d.State
			for _, h := range root.hist { // use the world's pointer for the same state
				if StateEqual(h, s) {
					s = h
				}
			}
		}
		var subs []*channel.State
		useReg := r.Intn(4) != 0
		var walk func(s *channel.State, depth int)
		walk = func(s *channel.State, depth int) {
			if depth > 3 {
				return
			}
			for _, l := range s.Locked {
				ch := w.chanOf(l.ID)
				if ch == nil {
					continue
				}
				st := w.pick(ch)
				if d := c.DisputeOf(l.ID); d != nil && useReg {
					st = d.State
					for _, h := range ch.hist {
						if StateEqual(h, st) {
							st = h
						}
					}
				}
				subs = append(subs, st)
				walk(st, depth+1)
			}
		}
		walk(s, 0)
		if r.Intn(12) == 0 && len(subs) > 0 {
			subs = subs[:len(subs)-1]
		}
		if s.IsFinal && len(s.Locked) == 0 && r.Intn(2) == 0 {
			t := mutSigs(w.tx(root, s))
			do(Call{Kind: "concludefinal", Params: root.params, Tx: t}, func() ([]Event, int) { return c.ConcludeFinal(t) })
			return
		}
		pp := root.params
		if r.Intn(20) == 0 && len(w.subs) > 0 {
			pp = w.subs[0].params
		}
		do(Call{Kind: "conclude", Params: pp, Tx: SignedTx{State: s}, SubSts: subs}, func() ([]Event, int) { return c.Conclude(pp, s, subs) })
	}
	withdraw := func() {
		idx := r.Intn(len(w.accs))
		signer := w.accs[idx].Address()
		to := Account(idx + 1)
		switch r.Intn(12) {
		case 0:
			signer = w.accs[(idx+1)%len(w.accs)].Address()
		case 1:
			to = Account(9)
		case 2:
			idx = len(w.accs)
		case 3:
			signer = w.foreign.Address()
		}
		do(Call{Kind: "withdraw", Params: root.params, Idx: idx, Signer: signer, Acct: to}, func() ([]Event, int) {
			return nil, c.Withdraw(root.params, idx, signer, to)
		})
	}
	progress := func() {
		ch := root
		d := c.DisputeOf(ch.params.ID())
		old := w.pick(ch)
		if d != nil && r.Intn(5) != 0 {
			old = d.State
		}
		nw := old.Clone()
		nw.Version++
		actor := 0
		if len(nw.Balances) > 0 && len(nw.Balances[0]) > 1 {
			actor = w.pay(nw)
		}
		switch r.Intn(12) {
		case 0:
			nw.Version++
		case 1:
			nw.Balances[0][0] = new(big.Int).Add(nw.Balances[0][0], big.NewInt(1))
		case 2:
			actor = (actor + 1) % len(ch.accs)
		case 3:
			nw.IsFinal = true
		case 4:
			if _, ok := ch.params.App.(*channel.MockApp); ok {
				old = old.Clone()
				old.Data = channel.NewMockOp(channel.OpErr)
			}
		case 5:
			actor = len(ch.accs)
		}
		signer := ch.accs[actor%len(ch.accs)]
		if r.Intn(10) == 0 {
			signer = w.foreign
		}
		sig, _ := channel.Sign(signer, nw, 0)
		do(Call{Kind: "progress", Params: ch.params, Old: old, Tx: SignedTx{State: nw}, Actor: channel.Index(actor), Sig: sig},
			func() ([]Event, int) { return c.Progress(ch.params, old, nw, channel.Index(actor), sig) })
	}
	tick := func() {
		n := uint64(r.Intn(4))
		if r.Intn(4) == 0 {
			n = uint64(r.Intn(12))
		}
		do(Call{Kind: "tick", N: n}, func() ([]Event, int) { c.Tick(n); return nil, OK })
	}
	// a mostly sensible script with random detours
	for p := range w.accs {
		if r.Intn(8) != 0 {
			deposit(p)
		}
	}
	n := 6 + r.Intn(12)
	for i := 0; i < n; i++ {
		switch k := r.Intn(20); {
		case k < 5:
			register()
		case k < 9:
			tick()
		case k < 13:
			conclude()
		case k < 16:
			withdraw()
		case k < 18:
			progress()
		default:
			deposit(r.Intn(len(w.accs)))
		}
	}
	for i := 0; i < 2; i++ {
		tick()
		conclude()
		for j := 0; j < len(w.accs); j++ {
			withdraw()
		}
	}
	snap := tb.Snapshot(c)
	term := fmt.Sprintf("mkLCase %s %s %s %s %s %s", tb.ParamsTable(), tb.StateTable(), initAcc, hx.List(ops), hx.List(outs), snap)
	class := fmt.Sprintf("ledger/np%d/subs%d", len(w.accs), len(w.subs))
	key := fmt.Sprint(kinds)
	res.Count(class, fmt.Sprintf("ok%d", nOK*4/len(ops)), key, false)
	return "(" + term + ")", class
}

// RunDiff writes n differential cases of the strict ledger against Model/Ledger.v.
func RunDiff(g *cv.Gen, n int, w *Writer, res *hx.Result) {
	for i := 0; i < n; i++ {
		sub := &cv.Gen{R: rand.New(rand.NewSource(g.R.Int63()))}
		term, class := diffCase(sub, res)
		w.Add(term)
		res.CaseIndex = append(res.CaseIndex, class)
		if i == 0 {
			res.Sample(map[string]string{"kind": "ledger differential case", "term_prefix": term[:min(len(term), 400)]})
		}
	}
	w.Flush()
}
