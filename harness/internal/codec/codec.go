// Package codec drives the native wire codecs (C14: round trip / stability / exact consumption,
// C13: arbitrary bytes never panic, limits enforced) and writes cases for Run/Compare_Codec.v.
package codec

import (
	"bytes"
	"fmt"
	"io"
	"math/rand"
	"os"
	"path/filepath"
	"strings"

	simwire "perun.network/go-perun/backend/sim/wire"
	"perun.network/go-perun/channel"
	"perun.network/go-perun/wallet"
	"perun.network/go-perun/wire"
	"perun.network/go-perun/wire/perunio"
	perunioser "perun.network/go-perun/wire/perunio/serializer"
	"verif/harness/internal/cv"
	"verif/harness/internal/hx"
	"verif/harness/internal/protoc"
)

// A Kind is one decodable wire type.
type Kind struct {
	Name string // Coq constructor of `kind`
	V    string // Coq constructor of `wval`
	// Gen returns an encoder for a fresh well-formed value and its Coq term.
	Gen func(g *cv.Gen) (enc func(io.Writer) error, term string)
	// Dec decodes from r and renders the value.
	Dec func(r io.Reader) (term string, err error)
}

func encOf(e perunio.Encoder) func(io.Writer) error { return e.Encode }

var Kinds = []Kind{
	{"KSub", "VSub", func(g *cv.Gen) (func(io.Writer) error, string) {
		s := g.SubAlloc(1 + g.R.Intn(4))
		return encOf(s), cv.SubAlloc(s)
	}, func(r io.Reader) (string, error) {
		var s channel.SubAlloc
		err := s.Decode(r)
		if err != nil {
			return "", err
		}
		tm := cv.SubAlloc(s)
		cv.Scribble(&s)
		return tm, nil
	}},
	{"KBals", "VBals", func(g *cv.Gen) (func(io.Writer) error, string) {
		a := g.Alloc(g.R.Intn(5), 1+g.R.Intn(5), 0)
		return encOf(a.Balances), cv.Bals(a.Balances)
	}, func(r io.Reader) (string, error) {
		var b channel.Balances
		err := b.Decode(r)
		if err != nil {
			return "", err
		}
		tm := cv.Bals(b)
		cv.Scribble(&b)
		return tm, nil
	}},
	{"KAlloc", "VAlloc", func(g *cv.Gen) (func(io.Writer) error, string) {
		a := g.Alloc(1+g.R.Intn(5), 1+g.R.Intn(5), g.R.Intn(4))
		return encOf(a), cv.Alloc(a)
	}, func(r io.Reader) (string, error) {
		var a channel.Allocation
		err := a.Decode(r)
		if err != nil {
			return "", err
		}
		tm := cv.Alloc(a)
		cv.Scribble(&a)
		return tm, nil
	}},
	{"KState", "VState", func(g *cv.Gen) (func(io.Writer) error, string) {
		s := g.State()
		return encOf(s), cv.State(s)
	}, func(r io.Reader) (string, error) {
		var s channel.State
		err := s.Decode(r)
		if err != nil {
			return "", err
		}
		tm := cv.State(&s)
		cv.Scribble(&s)
		return tm, nil
	}},
	{"KParams", "VParams", func(g *cv.Gen) (func(io.Writer) error, string) {
		p := g.Params(2 + g.R.Intn(4))
		return p.Encode, cv.Params(p)
	}, func(r io.Reader) (string, error) {
		var p channel.Params
		err := p.Decode(r)
		if err != nil {
			return "", err
		}
		tm := cv.Params(&p)
		cv.Scribble(&p)
		return tm, nil
	}},
	{"KTx", "VTx", func(g *cv.Gen) (func(io.Writer) error, string) {
		t := g.Tx()
		return encOf(t), cv.Tx(t)
	}, func(r io.Reader) (string, error) {
		var t channel.Transaction
		err := t.Decode(r)
		if err != nil {
			return "", err
		}
		tm := cv.Tx(t)
		cv.Scribble(&t)
		return tm, nil
	}},
	{"KWamap", "VWamap", func(g *cv.Gen) (func(io.Writer) error, string) {
		m := g.WAddr()
		return encOf(wallet.AddressDecMap(m)), cv.Wamap(m)
	}, func(r io.Reader) (string, error) {
		var m wallet.AddressDecMap
		err := m.Decode(r)
		if err != nil {
			return "", err
		}
		tm := cv.Wamap(m)
		cv.Scribble(m)
		return tm, nil
	}},
	{"KWamaps", "VWamaps", func(g *cv.Gen) (func(io.Writer) error, string) {
		n := g.R.Intn(5)
		l := make([]map[wallet.BackendID]wallet.Address, n)
		for i := range l {
			l[i] = g.WAddr()
		}
		return encOf(wallet.AddressMapArray{Addr: l}), cv.Wamaps(l)
	}, func(r io.Reader) (string, error) {
		var m wallet.AddressMapArray
		err := m.Decode(r)
		if err != nil {
			return "", err
		}
		tm := cv.Wamaps(m.Addr)
		cv.Scribble(&m)
		return tm, nil
	}},
	{"KRamap", "VRamap", func(g *cv.Gen) (func(io.Writer) error, string) {
		m := g.RAddr()
		return encOf(wire.AddressDecMap(m)), cv.Ramap(m)
	}, func(r io.Reader) (string, error) {
		var m wire.AddressDecMap
		err := m.Decode(r)
		if err != nil {
			return "", err
		}
		tm := cv.Ramap(m)
		cv.Scribble(m)
		return tm, nil
	}},
	{"KRamaps", "VRamaps", func(g *cv.Gen) (func(io.Writer) error, string) {
		l := g.RAddrs(g.R.Intn(5))
		return encOf(wire.AddressMapArray(l)), cv.Ramaps(l)
	}, func(r io.Reader) (string, error) {
		var m wire.AddressMapArray
		err := m.Decode(r)
		if err != nil {
			return "", err
		}
		tm := cv.Ramaps(m)
		cv.Scribble(m)
		return tm, nil
	}},
	{"KMsg", "VMsg", func(g *cv.Gen) (func(io.Writer) error, string) {
		m := g.Msg(wire.Type(g.R.Intn(int(wire.LastType))))
		return func(w io.Writer) error { return wire.EncodeMsg(m, w) }, cv.Msg(m)
	}, func(r io.Reader) (string, error) {
		m, err := wire.DecodeMsg(r)
		if err != nil {
			return "", err
		}
		tm := cv.Msg(m)
		cv.Scribble(m)
		return tm, nil
	}},
	{"KEnv", "VEnv", func(g *cv.Gen) (func(io.Writer) error, string) {
		e := g.Envelope(wire.Type(g.R.Intn(int(wire.LastType))))
		return func(w io.Writer) error { return perunioser.Serializer().Encode(w, e) }, cv.Envelope(e)
	}, func(r io.Reader) (string, error) {
		e, err := perunioser.Serializer().Decode(r)
		if err != nil {
			return "", err
		}
		tm := cv.Envelope(e)
		cv.Scribble(e)
		return tm, nil
	}},
}

// Decode runs a decoder under recover. outcome: "ok", "err", "panic".
func Decode(k *Kind, bs []byte) (outcome, term string, rest int, perr interface{}) {
	defer func() {
		if r := recover(); r != nil {
			outcome, term, rest, perr = "panic", "", 0, r
		}
	}()
	rd := bytes.NewReader(bs)
	t, err := k.Dec(rd)
	if err != nil {
		return "err", "", 0, nil
	}
	return "ok", t, rd.Len(), nil
}

func Encode(enc func(io.Writer) error) (bs []byte, ok bool, panicked bool) {
	defer func() {
		if r := recover(); r != nil {
			bs, ok, panicked = nil, false, true
		}
	}()
	var buf bytes.Buffer
	if err := enc(&buf); err != nil {
		return nil, false, false
	}
	return buf.Bytes(), true, false
}

func kindByName(name string) *Kind {
	for i := range Kinds {
		if Kinds[i].Name == name {
			return &Kinds[i]
		}
	}
	panic(name)
}

func obsTerm(k *Kind, outcome, term string, rest int) string {
	switch outcome {
	case "ok":
		return hx.App("DOk", hx.App(k.V, term), hx.Nat(rest))
	case "err":
		return "DErr"
	}
	return "DPanic"
}

type writer struct {
	dir    string
	cases  []string
	nfiles int
	total  int
	per    int
}

func (w *writer) add(c string) int {
	w.cases = append(w.cases, c)
	idx := w.total + len(w.cases) - 1
	if len(w.cases) >= w.per {
		w.flush()
	}
	return idx
}

func (w *writer) flush() {
	if len(w.cases) == 0 {
		return
	}
	var sb strings.Builder
	sb.WriteString("From V Require Import Run.Compare_Codec.\nOpen Scope list_scope.\n")
	pd, _ := cv.PayDef.MarshalBinary()
	md, _ := cv.MockDef.MarshalBinary()
	fmt.Fprintf(&sb, "Definition RS := mk_resolver %s %s.\n", hx.Hex(pd), hx.Hex(md))
	fmt.Fprintf(&sb, "Definition cases := [\n%s\n].\n", strings.Join(w.cases, ";\n"))
	fmt.Fprintf(&sb, "Definition M := Eval vm_compute in mismatches RS %d%%nat cases.\nPrint M.\n", w.total)
	if err := os.WriteFile(filepath.Join(w.dir, fmt.Sprintf("cases_%03d.v", w.nfiles)), []byte(sb.String()), 0o644); err != nil {
		panic(err)
	}
	w.nfiles++
	w.total += len(w.cases)
	w.cases = nil
}

// RunC14: well-formed values of every wire type: Go encoding vs model encoder, Go decode of the
// encoding (+ trailing bytes) vs model decoder, oracle: equal value, exact consumption, stable bytes.
func RunC14(seed int64, tier, out string) {
	hx.Seed(seed)
	g := &cv.Gen{R: rand.New(rand.NewSource(hx.Rng.Int63()))}
	res := hx.NewResult("C14", seed, tier)
	w := &writer{dir: out, per: 12}
	res.PerFile = 12
	n := 10
	if tier == "thorough" {
		n = 500
	}
	fail := func(site, class, what string, idx int, replay interface{}) {
		res.Fail(hx.Failure{Site: site, InputClass: class, What: what, Case: idx, Replay: replay})
	}
	for it := 0; it < n; it++ {
		for ki := range Kinds {
			k := &Kinds[ki]
			enc, term := k.Gen(g)
			bs, ok, panicked := Encode(enc)
			class := k.Name
			if k.Name == "KMsg" || k.Name == "KEnv" {
				class = k.Name + "/" + strings.SplitN(strings.TrimPrefix(term[strings.Index(term, "(M"):], "("), " ", 2)[0]
			}
			idx := w.add(hx.App("CEnc", hx.App(k.V, term), hx.Bool(ok), hx.Hex(bs)))
			res.CaseIndex = append(res.CaseIndex, "enc/"+class)
			if panicked || !ok {
				fail(k.Name+".Encode", class, "encoding a well-formed value failed", idx, term)
				res.Count("enc/"+class, "fail", "enc/"+class+"/fail", false)
				continue
			}
			res.Count("enc/"+class, "ok", fmt.Sprintf("enc/%s/%d", class, len(bs)/64), false)
			// decode with trailing bytes: exactly the value's bytes must be consumed
			extra := make([]byte, g.R.Intn(4))
			g.R.Read(extra)
			o, t2, rest, _ := Decode(k, append(append([]byte{}, bs...), extra...))
			idx = w.add(hx.App("CDec", k.Name, hx.Hex(append(append([]byte{}, bs...), extra...)), obsTerm(k, o, t2, rest)))
			res.CaseIndex = append(res.CaseIndex, "dec/"+class)
			res.Count("dec/"+class, o, fmt.Sprintf("dec/%s/%s/%d", class, o, len(bs)/64), false)
			res.Sample(map[string]interface{}{"kind": class, "value": term, "bytes": len(bs)})
			// the decoded value was modified in place after rendering (cv.Scribble): decoding is a
			// function of the bytes, so a second decode of the same bytes yields the same value
			if o2, t3, _, _ := Decode(k, append(append([]byte{}, bs...), extra...)); o == "ok" && (o2 != o || t3 != t2) {
				fail(k.Name+".Decode", class+"/again", "decoding the same bytes again, after the value decoded first was modified in place, gives a different value", idx, map[string]string{"first": t2, "second": t3})
			}
			switch {
			case o != "ok":
				fail(k.Name+".Decode", class, "decoding the encoding of a well-formed value: "+o, idx, term)
			case t2 != term:
				fail(k.Name+".Decode", class, "decode(encode v) differs from v", idx, map[string]string{"v": term, "decoded": t2})
			case rest != len(extra):
				fail(k.Name+".Decode", class, fmt.Sprintf("decoder consumed %d bytes of a %d byte encoding", len(bs)+len(extra)-rest, len(bs)), idx, term)
			}
		}
		// wire address maps with several entries (a node with addresses on several backends): Go encodes
		// them in map order, so only the DECODING of the bytes Go produced is compared with the model
		// (which sorts by key), together with the round trip in Go
		{
			krm := kindByName("KRamap")
			m := map[wallet.BackendID]wire.Address{}
			for _, key := range [][]int{{0, 1}, {0, 2, 5}, {1, 7}, {3, 2, 1, 0}}[g.R.Intn(4)] {
				m[wallet.BackendID(key)] = simwire.NewRandomAddress(g.R)
			}
			bs, ok, _ := Encode(encOf(wire.AddressDecMap(m)))
			if ok {
				o, t2, rest, _ := Decode(krm, bs)
				idx := w.add(hx.App("CDec", krm.Name, hx.Hex(bs), obsTerm(krm, o, t2, rest)))
				res.CaseIndex = append(res.CaseIndex, "dec/KRamap/multi")
				res.Count("dec/KRamap/multi", o, fmt.Sprintf("dec/KRamap/multi/%d/%s", len(m), o), false)
				if o != "ok" || t2 != cv.Ramap(m) || rest != 0 {
					fail("wire.AddressDecMap.Decode", "multi-entry", "decode(encode m) differs from m for a wire address map with several entries", idx, map[string]string{"m": cv.Ramap(m), "decoded": t2})
				}
			}
		}
		// concatenated envelopes decode one after the other
		cnt := 2 + g.R.Intn(4)
		var stream []byte
		var terms []string
		for i := 0; i < cnt; i++ {
			e := g.Envelope(wire.Type(g.R.Intn(int(wire.LastType))))
			var buf bytes.Buffer
			if err := perunioser.Serializer().Encode(&buf, e); err != nil {
				continue
			}
			stream = append(stream, buf.Bytes()...)
			terms = append(terms, cv.Envelope(e))
		}
		rd := bytes.NewReader(stream)
		var got []string
		for rd.Len() > 0 {
			e, err := perunioser.Serializer().Decode(rd)
			if err != nil {
				break
			}
			got = append(got, cv.Envelope(e))
		}
		idx := w.add(hx.App("CStream", hx.Hex(stream), hx.List(got)))
		res.CaseIndex = append(res.CaseIndex, "stream")
		res.Count("stream", fmt.Sprintf("%d", len(got)), fmt.Sprintf("stream/%d/%d", len(terms), len(got)), false)
		if strings.Join(got, ";") != strings.Join(terms, ";") {
			fail("serializer.Decode", "stream", "consecutive envelopes on one stream are not decoded in order", idx, nil)
		}
	}
	w.flush()
	res.Rule = "well-formed values of every wire type (12 value decoders, all 17 message types, envelopes): Go encoding compared with the model encoder, Go decoding of encoding+trailing bytes compared with the model decoder; streams of 2-5 envelopes; distinct by (type, size class, outcome)"
	protoc.RunC14(seed, tier, out, w.total, res)
	res.Write(out)
}

var patterns = [][]byte{{0}, {1}, {0xff}, {0x7f}, {0x80}, {0xff, 0xff}, {0xff, 0x7f}, {0x01, 0x04}, {0x00, 0x04}, {0x00, 0x00, 0x00, 0x80},
	{0xff, 0xff, 0xff, 0x7f}, {0xff, 0xff, 0xff, 0xff}, {0x00, 0x00, 0x01, 0x00}, {0x81}, {0x05, 0x00, 0x00, 0x00}}

// RunC13: malformed inputs to every decoder.
func RunC13(seed int64, tier, out string) {
	hx.Seed(seed)
	g := &cv.Gen{R: rand.New(rand.NewSource(hx.Rng.Int63()))}
	res := hx.NewResult("C13", seed, tier)
	w := &writer{dir: out, per: 64}
	res.PerFile = 64
	rounds, muts := 4, 14
	if tier == "thorough" {
		rounds, muts = 30, 40
	}
	try := func(k *Kind, class string, bs []byte) {
		hx.Inflight(out, k.Name+".Decode", class, fmt.Sprintf("%x", bs))
		o, t, rest, perr := Decode(k, bs)
		hx.InflightDone(out)
		idx := w.add(hx.App("CDec", k.Name, hx.Hex(bs), obsTerm(k, o, t, rest)))
		res.CaseIndex = append(res.CaseIndex, k.Name+"/"+class)
		res.Count(k.Name+"/"+class, o, fmt.Sprintf("%s/%s/%s/%d", k.Name, class, o, len(bs)/16), class == "random")
		if o == "panic" {
			res.Fail(hx.Failure{Site: k.Name + ".Decode", InputClass: class, What: fmt.Sprintf("decoder panicked: %v", perr), Case: idx,
				Replay: map[string]string{"kind": k.Name, "bytes": fmt.Sprintf("%x", bs)}})
		}
		// an accepted encoding whose header declares more than a documented limit (read straight from
		// the bytes: the counts are the little-endian u16 fields at fixed offsets)
		if o == "ok" {
			u16at := func(off int) int {
				if off+2 > len(bs) {
					return 0
				}
				return int(bs[off]) | int(bs[off+1])<<8
			}
			var declared []int
			var limits []int
			switch k.Name {
			case "KBals":
				declared, limits = []int{u16at(0), u16at(2)}, []int{channel.MaxNumAssets, channel.MaxNumParts}
			case "KAlloc":
				declared, limits = []int{u16at(0), u16at(2), u16at(4)}, []int{channel.MaxNumAssets, channel.MaxNumParts, channel.MaxNumSubAllocations}
			case "KState":
				declared, limits = []int{u16at(40), u16at(42), u16at(44)}, []int{channel.MaxNumAssets, channel.MaxNumParts, channel.MaxNumSubAllocations}
			case "KSub":
				declared, limits = []int{u16at(32)}, []int{channel.MaxNumAssets}
			}
			for i := range declared {
				if declared[i] > limits[i] {
					res.Fail(hx.Failure{Site: k.Name + ".Decode", InputClass: class + "/declared-over-limit", Case: idx,
						What:   fmt.Sprintf("an encoding whose header field %d declares %d (limit %d) was accepted", i, declared[i], limits[i]),
						Replay: map[string]string{"kind": k.Name, "bytes": fmt.Sprintf("%x", bs)}})
				}
			}
		}
		if len(res.Samples) < 6 && o != "ok" && class != "random" {
			res.Sample(map[string]interface{}{"kind": k.Name, "class": class, "bytes": fmt.Sprintf("%x", bs), "outcome": o})
		}
	}
	for r := 0; r < rounds; r++ {
		for ki := range Kinds {
			k := &Kinds[ki]
			enc, _ := k.Gen(g)
			bs, ok, _ := Encode(enc)
			if !ok {
				continue
			}
			// random bytes
			rb := make([]byte, g.R.Intn(80))
			g.R.Read(rb)
			try(k, "random", rb)
			// truncation
			if len(bs) > 0 {
				try(k, "truncated", bs[:g.R.Intn(len(bs))])
			}
			// the tail of an encoding holds masks, flags and trailing counts
			for _, b := range []byte{0xff, 0x80, 0x08} {
				c := append([]byte{}, bs...)
				if len(c) > 0 {
					c[len(c)-1-g.R.Intn(min(len(c), 3))] = b
					try(k, "tail", c)
				}
			}
			// bit flips and field-aware overwrites at (a sample of) every offset
			for m := 0; m < muts; m++ {
				c := append([]byte{}, bs...)
				if len(c) == 0 {
					break
				}
				p := g.R.Intn(len(c))
				if m%2 == 0 && len(c) > 70 { // headers are where the counts live
					p = g.R.Intn(70)
				}
				if m%3 == 0 {
					c[p] ^= 1 << uint(g.R.Intn(8))
					try(k, "bitflip", c)
				} else {
					pat := patterns[g.R.Intn(len(patterns))]
					copy(c[p:], pat)
					try(k, "overwrite", c)
				}
			}
		}
	}
	// constant buffers: all counts zero / all counts maximal
	for ki := range Kinds {
		for _, n := range []int{0, 1, 2, 4, 8, 16, 40, 80, 400} {
			try(&Kinds[ki], "zeros", make([]byte, n))
			if n <= 16 {
				try(&Kinds[ki], "ones", bytes.Repeat([]byte{0xff}, n))
			}
		}
	}
	// every offset of one small encoding per decoder overwritten with 0xff (quick: the small types)
	for ki := range Kinds {
		k := &Kinds[ki]
		small := k.Name == "KTx" || k.Name == "KSub" || k.Name == "KBals" || k.Name == "KWamaps" || k.Name == "KRamap"
		if tier != "thorough" && !small {
			continue
		}
		enc, _ := k.Gen(g)
		bs, ok, _ := Encode(enc)
		if !ok || len(bs) > 1200 {
			continue
		}
		for p := 0; p < len(bs); p++ {
			c := append([]byte{}, bs...)
			c[p] = 0xff
			try(k, "sweep-ff", c)
		}
	}
	// encodings that DECLARE more than the documented limits and carry a complete body
	zeros := func(n int) []byte { return make([]byte, n) }
	u16 := func(n int) []byte { return []byte{byte(n), byte(n >> 8)} }
	kind := func(name string) *Kind {
		for i := range Kinds {
			if Kinds[i].Name == name {
				return &Kinds[i]
			}
		}
		panic(name)
	}
	cat := func(parts ...[]byte) []byte { return bytes.Join(parts, nil) }
	asset := cat([]byte{0, 0, 0, 0}, u16(8), zeros(8)) // backend 0, 8-byte asset id
	rep := func(b []byte, n int) []byte { return bytes.Repeat(b, n) }
	over := []struct {
		k     string
		class string
		bs    []byte
	}{
		{"KBals", "over-limit/parts-1025", cat(u16(1), u16(1025), zeros(1025))},
		{"KBals", "over-limit/assets-1025", cat(u16(1025), u16(1), zeros(1025))},
		{"KBals", "at-limit/parts-1024", cat(u16(1), u16(1024), zeros(1024))},
		{"KBals", "over-limit/bigint-129", cat(u16(1), u16(1), []byte{129}, rep([]byte{1}, 129))},
		{"KBals", "at-limit/bigint-128", cat(u16(1), u16(1), []byte{128}, rep([]byte{1}, 128))},
		{"KSub", "over-limit/bals-1025", cat(zeros(32), u16(1025), zeros(1025), u16(0))},
		{"KSub", "at-limit/bals-1024", cat(zeros(32), u16(1024), zeros(1024), u16(0))},
		{"KAlloc", "over-limit/assets-1025", cat(u16(1025), u16(1), u16(0), rep(asset, 1025), u16(1025), u16(1), zeros(1025))},
		{"KAlloc", "over-limit/parts-1025", cat(u16(1), u16(1025), u16(0), asset, u16(1), u16(1025), zeros(1025))},
		{"KAlloc", "over-limit/header-parts-1025-body-legal", cat(u16(1), u16(1025), u16(0), asset, u16(1), u16(2), zeros(2))},
		{"KAlloc", "over-limit/header-parts-65535-body-legal", cat(u16(1), u16(65535), u16(0), asset, u16(1), u16(2), zeros(2))},
		{"KAlloc", "over-limit/header-assets-1025-body-legal", cat(u16(1025), u16(2), u16(0), asset, u16(1), u16(2), zeros(2))},
		{"KAlloc", "over-limit/header-locked-1025-body-legal", cat(u16(1), u16(2), u16(1025), asset, u16(1), u16(2), zeros(2))},
		{"KAlloc", "over-limit/parts-1025-header-lies", cat(u16(1), u16(2), u16(0), asset, u16(1), u16(1025), zeros(1025))},
		{"KAlloc", "over-limit/locked-1025", cat(u16(1), u16(1), u16(1025), asset, u16(1), u16(1), zeros(1), rep(cat(zeros(32), u16(1), zeros(1), u16(0)), 1025))},
	}
	// every value of the message type byte (known types, the first unknown one, the rest of the byte
	// range sampled) in front of a well-formed body of some message and of an empty body: a type
	// without a decoder must be refused, not looked up and called
	{
		kmsg, kenv := kind("KMsg"), kind("KEnv")
		for t := 0; t < 256; t++ {
			if t > 40 && t%17 != 0 && t < 250 {
				continue
			}
			m := g.Msg(wire.Type(g.R.Intn(int(wire.LastType))))
			var body bytes.Buffer
			if err := wire.EncodeMsg(m, &body); err != nil || body.Len() == 0 {
				continue
			}
			try(kmsg, "type-sweep", append([]byte{byte(t)}, body.Bytes()[1:]...))
			try(kmsg, "type-sweep", []byte{byte(t)})
			e := g.Envelope(wire.Type(g.R.Intn(int(wire.LastType))))
			var eb, sb, rb bytes.Buffer
			if perunioser.Serializer().Encode(&eb, e) != nil || wire.AddressDecMap(e.Sender).Encode(&sb) != nil || wire.AddressDecMap(e.Recipient).Encode(&rb) != nil {
				continue
			}
			off := sb.Len() + rb.Len()
			if off < eb.Len() {
				c := append([]byte{}, eb.Bytes()...)
				c[off] = byte(t)
				try(kenv, "type-sweep", c)
			}
		}
	}
	// balance matrices whose two dimensions are each legal but whose product is large: header and the
	// first amounts only (the decoder must answer with an error at the end of input, whatever it
	// allocates up front), and in the thorough tier complete well-formed matrices
	dims := []int{1, 2, 64, 255, 256, 257, 300, 512, 1023, 1024}
	for _, na := range dims {
		for _, np := range dims {
			if na*np < 4096 {
				continue
			}
			tail := (na*7 + np) % 5
			over = append(over, struct {
				k     string
				class string
				bs    []byte
			}{"KBals", "large-legal/header", cat(u16(na), u16(np), zeros(tail))})
		}
	}
	for _, d := range [][2]int{{256, 256}, {1024, 64}, {300, 300}} {
		over = append(over, struct {
			k     string
			class string
			bs    []byte
		}{"KAlloc", "large-legal/header", cat(u16(d[0]), u16(d[1]), u16(0), rep(asset, d[0]), u16(d[0]), u16(d[1]), zeros(3))})
	}
	if tier == "thorough" {
		for _, d := range [][2]int{{300, 300}, {256, 256}, {1024, 65}} {
			over = append(over, struct {
				k     string
				class string
				bs    []byte
			}{"KBals", "large-legal/complete", cat(u16(d[0]), u16(d[1]), zeros(d[0]*d[1]))})
		}
	}
	for _, o := range over {
		k := kind(o.k)
		before := len(res.CaseIndex)
		try(k, o.class, o.bs)
		out, _, _, _ := Decode(k, o.bs)
		if strings.HasPrefix(o.class, "over-limit") && out == "ok" {
			res.Fail(hx.Failure{Site: k.Name + ".Decode", InputClass: o.class, What: "an encoding that declares more than the documented limit was accepted", Case: before,
				Replay: map[string]string{"kind": k.Name, "bytes": fmt.Sprintf("%x", o.bs)}})
		}
	}
	w.flush()
	res.Rule = "malformed inputs for each of the 12 decoders: random bytes, truncations, bit flips, overwrites of every offset with boundary patterns (0, 1, 0xff, 0x7fff, 0xffff, 1024, 1025, negative and huge int32); outcome class ok(value, unread)/err/panic compared with the model; distinct by (decoder, mutation class, outcome, size class); random-bytes cases counted as trivial"
	protoc.RunC13(seed, tier, out, w.total, res)
	res.Write(out)
}
