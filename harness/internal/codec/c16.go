package codec

import (
	"bytes"
	"fmt"
	"io"
	"math/rand"
	"os"
	"path/filepath"
	"strings"

	"net"
	"time"

	"perun.network/go-perun/wire"
	wirenet "perun.network/go-perun/wire/net"
	perunioser "perun.network/go-perun/wire/perunio/serializer"
	protoser "perun.network/go-perun/wire/protobuf"
	"verif/harness/internal/cv"
	"verif/harness/internal/hx"
	"verif/harness/internal/protoc"
)

// chunkReader delivers the stream in the given chunks: one Read never crosses a chunk boundary.
// When the chunks are used up the stream has nothing more to give (reported as EOF).
type chunkReader struct{ chunks [][]byte }

func (c *chunkReader) Read(p []byte) (int, error) {
	for len(c.chunks) > 0 && len(c.chunks[0]) == 0 {
		c.chunks = c.chunks[1:]
	}
	if len(c.chunks) == 0 {
		return 0, io.EOF
	}
	if len(p) == 0 {
		return 0, nil
	}
	n := copy(p, c.chunks[0])
	c.chunks[0] = c.chunks[0][n:]
	return n, nil
}

func (c *chunkReader) empty() bool {
	for _, ch := range c.chunks {
		if len(ch) > 0 {
			return false
		}
	}
	return true
}

func split(bs []byte, cuts []int) [][]byte {
	var out [][]byte
	prev := 0
	for _, c := range cuts {
		if c > prev && c < len(bs) {
			out = append(out, bs[prev:c])
			prev = c
		}
	}
	if prev < len(bs) {
		out = append(out, bs[prev:])
	}
	return out
}

// pipeRecv sends the chunks through a net.Pipe (each chunk is one Write, hence at most one Read on the
// other side returns bytes of it) and receives `count` envelopes with wire/net.NewIoConn.
func pipeRecv(ser wire.EnvelopeSerializer, chunks [][]byte, count int) (got []string, ok bool) {
	a, b := net.Pipe()
	defer a.Close()
	defer b.Close()
	_ = b.SetReadDeadline(time.Now().Add(20 * time.Second))
	go func() {
		for _, c := range chunks {
			if _, err := a.Write(c); err != nil {
				return
			}
		}
	}()
	conn := wirenet.NewIoConn(b, ser)
	for i := 0; i < count; i++ {
		e, err := conn.Recv()
		if err != nil {
			return got, false
		}
		got = append(got, cv.Envelope(e))
	}
	return got, true
}

// RunC16 decodes streams of envelopes through chunking readers with the native serializer.
func RunC16(seed int64, tier, out string) {
	hx.Seed(seed)
	g := &cv.Gen{R: rand.New(rand.NewSource(hx.Rng.Int63()))}
	res := hx.NewResult("C16", seed, tier)
	res.PerFile = 16
	var cases []string
	nfiles, total := 0, 0
	flush := func() {
		if len(cases) == 0 {
			return
		}
		var sb strings.Builder
		sb.WriteString("From V Require Import Run.Compare_C16.\nOpen Scope list_scope.\n")
		pd, _ := cv.PayDef.MarshalBinary()
		md, _ := cv.MockDef.MarshalBinary()
		fmt.Fprintf(&sb, "Definition RS := mk_resolver %s %s.\n", hx.Hex(pd), hx.Hex(md))
		fmt.Fprintf(&sb, "Definition cases := [\n%s\n].\n", strings.Join(cases, ";\n"))
		fmt.Fprintf(&sb, "Definition M := Eval vm_compute in kmismatches RS %d%%nat cases.\nPrint M.\n", total)
		if err := os.WriteFile(filepath.Join(out, fmt.Sprintf("cases_%03d.v", nfiles)), []byte(sb.String()), 0o644); err != nil {
			panic(err)
		}
		nfiles++
		total += len(cases)
		cases = nil
	}
	n := 40
	if tier == "thorough" {
		n = 800
	}
	ser := perunioser.Serializer()
	for it := 0; it < n; it++ {
		cnt := 1 + g.R.Intn(3)
		var stream []byte
		var want []string
		var envs []*wire.Envelope
		for i := 0; i < cnt; i++ {
			e := g.Envelope(wire.Type(g.R.Intn(int(wire.LastType))))
			var buf bytes.Buffer
			if err := ser.Encode(&buf, e); err != nil {
				continue
			}
			stream = append(stream, buf.Bytes()...)
			want = append(want, cv.Envelope(e))
			envs = append(envs, e)
		}
		var cuts []int
		class := ""
		switch it % 6 {
		case 0:
			class = "whole"
		case 1:
			class = "single-bytes"
			for i := 1; i < len(stream); i++ {
				cuts = append(cuts, i)
			}
		case 2:
			class = "mss-1460"
			for i := 1460; i < len(stream); i += 1460 {
				cuts = append(cuts, i)
			}
		case 3:
			class = "one-cut"
			cuts = []int{1 + g.R.Intn(len(stream)-1)}
		case 4:
			class = "small-chunks"
			for i := 1 + g.R.Intn(7); i < len(stream); i += 1 + g.R.Intn(7) {
				cuts = append(cuts, i)
			}
		default:
			class = "random"
			for i := 1 + g.R.Intn(200); i < len(stream); i += 1 + g.R.Intn(200) {
				cuts = append(cuts, i)
			}
		}
		chunks := split(stream, cuts)
		chunkTerms := make([]string, len(chunks))
		for i, c := range chunks {
			chunkTerms[i] = hx.Hex(c)
		}
		rd := &chunkReader{chunks: append([][]byte{}, chunks...)}
		var got []string
		clean := true
		for !rd.empty() {
			e, err := ser.Decode(rd)
			if err != nil {
				clean = false
				break
			}
			got = append(got, cv.Envelope(e))
		}
		idx := total + len(cases)
		cases = append(cases, hx.App("CChunks", hx.List(chunkTerms), hx.List(got), hx.Bool(clean)))
		res.CaseIndex = append(res.CaseIndex, "native/"+class)
		res.Count("native/"+class, fmt.Sprintf("decoded=%d/%d", len(got), len(want)), fmt.Sprintf("%s/%d/%d/%d", class, len(want), len(got), len(chunks)/8), false)
		res.Sample(map[string]interface{}{"serializer": "native", "class": class, "envelopes": len(want), "stream_bytes": len(stream), "chunks": len(chunks)})
		if !clean || strings.Join(got, ";") != strings.Join(want, ";") {
			res.Fail(hx.Failure{Site: "perunio/serializer.Decode", InputClass: class, Case: idx,
				What:   fmt.Sprintf("chunked delivery decoded %d of %d envelopes (clean=%v)", len(got), len(want), clean),
				Replay: map[string]interface{}{"stream": fmt.Sprintf("%x", stream), "cuts": cuts}})
		}
		// the same stream through wire/net.ioConn over a net.Pipe (oracle only: same model)
		if pg, pok := pipeRecv(ser, chunks, len(want)); !pok || strings.Join(pg, ";") != strings.Join(want, ";") {
			res.Fail(hx.Failure{Site: "wire/net.ioConn.Recv(native)", InputClass: class, Case: idx,
				What: fmt.Sprintf("pipe delivery decoded %d of %d envelopes", len(pg), len(want)), Replay: map[string]interface{}{"stream": fmt.Sprintf("%x", stream), "cuts": cuts}})
		}
		res.Count("pipe-native/"+class, "ok", fmt.Sprintf("pipe-native/%s/%d", class, len(want)), false)
		// protobuf serializer: frames of the same envelopes, same partition classes (oracle only until
		// the protobuf conversions are part of the model)
		var pstream []byte
		var pwant []string
		for _, e := range envs {
			e := e
			pb, pok, _ := Encode(func(w io.Writer) error { return protoser.Serializer().Encode(w, e) })
			if !pok {
				continue // not representable in protobuf / encoder failure (covered by C14)
			}
			back, err := protoser.Serializer().Decode(bytes.NewReader(pb))
			if err != nil {
				continue
			}
			pstream = append(pstream, pb...)
			pwant = append(pwant, cv.Envelope(back))
		}
		if len(pwant) > 0 {
			var pcuts []int
			for _, c := range cuts {
				if c < len(pstream) {
					pcuts = append(pcuts, c)
				}
			}
			if class == "single-bytes" {
				pcuts = nil
				for i := 1; i < len(pstream); i++ {
					pcuts = append(pcuts, i)
				}
			}
			pchunks := split(pstream, pcuts)
			prd := &chunkReader{chunks: append([][]byte{}, pchunks...)}
			var pgot []string
			pclean := true
			for !prd.empty() {
				e, err := protoser.Serializer().Decode(prd)
				if err != nil {
					pclean = false
					break
				}
				pgot = append(pgot, cv.Envelope(e))
			}
			res.Count("proto/"+class, fmt.Sprintf("decoded=%d/%d", len(pgot), len(pwant)), fmt.Sprintf("proto/%s/%d/%d", class, len(pwant), len(pgot)), false)
			if !pclean || strings.Join(pgot, ";") != strings.Join(pwant, ";") {
				res.Fail(hx.Failure{Site: "wire/protobuf.serializer.Decode", InputClass: class, Case: idx,
					What:   fmt.Sprintf("chunked delivery decoded %d of %d protobuf frames (clean=%v)", len(pgot), len(pwant), pclean),
					Replay: map[string]interface{}{"stream": fmt.Sprintf("%x", pstream), "cuts": pcuts}})
			}
			if pg, pok := pipeRecv(protoser.Serializer(), pchunks, len(pwant)); !pok || strings.Join(pg, ";") != strings.Join(pwant, ";") {
				res.Fail(hx.Failure{Site: "wire/net.ioConn.Recv(protobuf)", InputClass: class, Case: idx,
					What: fmt.Sprintf("pipe delivery decoded %d of %d protobuf frames", len(pg), len(pwant)), Replay: map[string]interface{}{"stream": fmt.Sprintf("%x", pstream), "cuts": pcuts}})
			}
		}
		if len(cases) >= 16 {
			flush()
		}
	}
	// every message type once, delivered in regular chunks of every size 2..9 at every phase (a reader
	// that takes "what is available" sees every residue of every field boundary); all of them checked
	// against the expected envelopes, the sizes 3 and 5 at phase 0 also evaluated in the model
	for t := wire.Type(0); t < wire.LastType; t++ {
		reps := 2
		if tier == "thorough" {
			reps = 12
		}
		for rep := 0; rep < reps; rep++ {
			e := g.Envelope(t)
			var buf bytes.Buffer
			if err := ser.Encode(&buf, e); err != nil {
				continue
			}
			stream := buf.Bytes()
			want := cv.Envelope(e)
			for size := 2; size <= 9; size++ {
				for phase := 0; phase < size; phase++ {
					var cuts []int
					for i := phase; i < len(stream); i += size {
						if i > 0 {
							cuts = append(cuts, i)
						}
					}
					chunks := split(stream, cuts)
					rd := &chunkReader{chunks: append([][]byte{}, chunks...)}
					var got []string
					clean := true
					for !rd.empty() {
						d, err := ser.Decode(rd)
						if err != nil {
							clean = false
							break
						}
						got = append(got, cv.Envelope(d))
					}
					good := clean && len(got) == 1 && got[0] == want
					idx := -1
					if phase == 0 && (size == 3 || size == 5) && rep == 0 {
						chunkTerms := make([]string, len(chunks))
						for i, c := range chunks {
							chunkTerms[i] = hx.Hex(c)
						}
						idx = total + len(cases)
						cases = append(cases, hx.App("CChunks", hx.List(chunkTerms), hx.List(got), hx.Bool(clean)))
						res.CaseIndex = append(res.CaseIndex, "native/regular")
						if len(cases) >= 16 {
							flush()
						}
					}
					res.Count("native/regular", fmt.Sprintf("good=%v", good), fmt.Sprintf("regular/%d/%d/%d/%v", t, size, phase, good), false)
					if !good {
						res.Fail(hx.Failure{Site: "perunio/serializer.Decode", InputClass: "regular", Case: idx,
							What:   fmt.Sprintf("a %T delivered in chunks of %d bytes (phase %d) is not decoded to the envelope sent (clean=%v, decoded %d)", e.Msg, size, phase, clean, len(got)),
							Replay: map[string]interface{}{"stream": fmt.Sprintf("%x", stream), "chunk_size": size, "phase": phase}})
					}
				}
			}
		}
	}
	flush()
	res.Rule = "every message type in regular chunks of 2..9 bytes at every phase; streams of 1-3 well-formed envelopes delivered through a chunking io.Reader: whole, single bytes, 1460-byte segments, one cut at a random offset, 1-7 byte chunks, random chunks; decoded envelopes and clean end compared with run_chunked of the model; distinct by (partition class, envelopes, decoded, chunk count class)"
	protoc.RunC16(seed, tier, out, total, res)
	res.Write(out)
}
