package cv

import (
	"math/big"
	"reflect"
	"unsafe"

	"perun.network/go-perun/channel"
	"perun.network/go-perun/wallet"
	"perun.network/go-perun/wire"
)

var (
	tBigInt    = reflect.TypeOf((*big.Int)(nil))
	tWAddr     = reflect.TypeOf((*wallet.Address)(nil)).Elem()
	tRAddr     = reflect.TypeOf((*wire.Address)(nil)).Elem()
	tApp       = reflect.TypeOf((*channel.App)(nil)).Elem()
	tAsset     = reflect.TypeOf((*channel.Asset)(nil)).Elem()
	tWAccount  = reflect.TypeOf((*wallet.Account)(nil)).Elem()
	scribbleBy = big.NewInt(7)
)

// Scribble modifies in place every amount (*big.Int: balances, locked funds, funding agreements,
// nonces) reachable from the decoded value p points to, leaving alone what the library documents as
// shared (apps, assets, addresses, accounts).  A decoder whose results share memory with each other
// or with a package-level value then returns something else for the next input.
func Scribble(p interface{}) {
	defer func() { _ = recover() }()
	seen := map[unsafe.Pointer]bool{}
	scribble(reflect.ValueOf(p), seen, 0)
}

func scribble(v reflect.Value, seen map[unsafe.Pointer]bool, depth int) {
	if !v.IsValid() || depth > 40 {
		return
	}
	t := v.Type()
	if t.Implements(tWAddr) || t.Implements(tRAddr) || t.Implements(tApp) || t.Implements(tAsset) || t.Implements(tWAccount) {
		return
	}
	switch v.Kind() {
	case reflect.Ptr:
		if v.IsNil() {
			return
		}
		ptr := unsafe.Pointer(v.Pointer())
		if seen[ptr] {
			return
		}
		seen[ptr] = true
		if t == tBigInt {
			b := (*big.Int)(ptr)
			b.Add(b, scribbleBy)
			return
		}
		scribble(v.Elem(), seen, depth+1)
	case reflect.Interface:
		if !v.IsNil() {
			scribble(v.Elem(), seen, depth+1)
		}
	case reflect.Struct:
		for i := 0; i < v.NumField(); i++ {
			f := v.Field(i)
			if !f.CanInterface() && f.CanAddr() {
				f = reflect.NewAt(f.Type(), unsafe.Pointer(f.UnsafeAddr())).Elem()
			}
			scribble(f, seen, depth+1)
		}
	case reflect.Slice, reflect.Array:
		if t.Elem().Kind() == reflect.Uint8 {
			return
		}
		for i := 0; i < v.Len(); i++ {
			scribble(v.Index(i), seen, depth+1)
		}
	case reflect.Map:
		it := v.MapRange()
		for it.Next() {
			scribble(it.Value(), seen, depth+1)
		}
	}
}
