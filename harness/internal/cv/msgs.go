package cv

import (
	"fmt"
	"math/big"
	"sort"

	simwire "perun.network/go-perun/backend/sim/wire"
	"perun.network/go-perun/channel"
	"perun.network/go-perun/client"
	"perun.network/go-perun/wallet"
	"perun.network/go-perun/wire"
	"verif/harness/internal/hx"
)

// ---------- rendering of address maps, params, sigs, transactions, messages ----------

func mb(m interface{ MarshalBinary() ([]byte, error) }) []byte {
	b, err := m.MarshalBinary()
	if err != nil {
		panic(err)
	}
	return b
}

func Wamap(m map[wallet.BackendID]wallet.Address) string {
	keys := make([]int, 0, len(m))
	for k := range m {
		keys = append(keys, int(k))
	}
	sort.Ints(keys)
	items := make([]string, len(keys))
	for i, k := range keys {
		items[i] = fmt.Sprintf("((%d)%%Z, %s)", k, hx.Hex(mb(m[wallet.BackendID(k)])))
	}
	return hx.List(items)
}

func Wamaps(l []map[wallet.BackendID]wallet.Address) string { return hx.ListOf(l, Wamap) }

func Ramap(m map[wallet.BackendID]wire.Address) string {
	keys := make([]int, 0, len(m))
	for k := range m {
		keys = append(keys, int(k))
	}
	sort.Ints(keys)
	items := make([]string, len(keys))
	for i, k := range keys {
		items[i] = fmt.Sprintf("((%d)%%Z, %s)", k, hx.Hex(mb(m[wallet.BackendID(k)])))
	}
	return hx.List(items)
}

func Ramaps(l []map[wallet.BackendID]wire.Address) string { return hx.ListOf(l, Ramap) }

func Sigs(s []wallet.Sig) string {
	return hx.ListOf(s, func(x wallet.Sig) string { return hx.Opt(x != nil, hx.Hex(x)) })
}

func Params(p *channel.Params) string {
	return hx.App("mkParams", hx.N(p.ChallengeDuration), Wamaps(p.Parts), AppDef(p.App), hx.Z(p.Nonce),
		hx.Bool(p.LedgerChannel), hx.Bool(p.VirtualChannel), hx.Hex(p.Aux[:]))
}

func Tx(t channel.Transaction) string {
	if t.State == nil {
		return "None"
	}
	return "(Some (" + State(t.State) + ", " + Sigs(t.Sigs) + "))"
}

func imap(m []channel.Index) string {
	return hx.ListOf(m, func(i channel.Index) string { return hx.N(uint64(i)) })
}

func BaseProp(b *client.BaseChannelProposal) string {
	return hx.App("mkBP", hx.Hex(b.ProposalID[:]), hx.N(b.ChallengeDuration), hx.Hex(b.NonceShare[:]),
		AppDef(b.App), Data(b.InitData), Alloc(*b.InitBals), Bals(b.FundingAgreement), hx.Hex(b.Aux[:]))
}

func update(u *client.ChannelUpdateMsg) string {
	return State(u.State) + " " + hx.N(uint64(u.ActorIdx)) + " " + hx.Hex(u.Sig)
}

func Msg(m wire.Msg) string {
	switch x := m.(type) {
	case *wire.PingMsg:
		return hx.App("MPing", hx.N(uint64(x.Created.UnixNano())))
	case *wire.PongMsg:
		return hx.App("MPong", hx.N(uint64(x.Created.UnixNano())))
	case *wire.ShutdownMsg:
		return hx.App("MShutdown", hx.Hex([]byte(x.Reason)))
	case *wire.AuthResponseMsg:
		return hx.App("MAuthResponse", hx.Hex(x.Signature))
	case *client.LedgerChannelProposalMsg:
		return hx.App("MLedgerProp", BaseProp(&x.BaseChannelProposal), Wamap(x.Participant), Ramaps(x.Peers))
	case *client.LedgerChannelProposalAccMsg:
		return hx.App("MLedgerAcc", hx.Hex(x.ProposalID[:]), hx.Hex(x.NonceShare[:]), Wamap(x.Participant))
	case *client.SubChannelProposalMsg:
		return hx.App("MSubProp", BaseProp(&x.BaseChannelProposal), hx.Hex(x.Parent[:]))
	case *client.SubChannelProposalAccMsg:
		return hx.App("MSubAcc", hx.Hex(x.ProposalID[:]), hx.Hex(x.NonceShare[:]))
	case *client.VirtualChannelProposalMsg:
		return hx.App("MVirtProp", BaseProp(&x.BaseChannelProposal), Wamap(x.Proposer), Ramaps(x.Peers),
			hx.ListOf(x.Parents, func(id channel.ID) string { return hx.Hex(id[:]) }), hx.ListOf(x.IndexMaps, imap))
	case *client.VirtualChannelProposalAccMsg:
		return hx.App("MVirtAcc", hx.Hex(x.ProposalID[:]), hx.Hex(x.NonceShare[:]), Wamap(x.Responder))
	case *client.ChannelProposalRejMsg:
		return hx.App("MPropRej", hx.Hex(x.ProposalID[:]), hx.Hex([]byte(x.Reason)))
	case *client.ChannelUpdateMsg:
		return "(MUpdate " + update(x) + ")"
	case *client.VirtualChannelFundingProposalMsg:
		return "(MVFund " + update(&x.ChannelUpdateMsg) + " " + Params(x.Initial.Params) + " " + State(x.Initial.State) + " " + imap(x.IndexMap) + " " + Sigs(x.Initial.Sigs) + ")"
	case *client.VirtualChannelSettlementProposalMsg:
		return "(MVSettle " + update(&x.ChannelUpdateMsg) + " " + Params(x.Final.Params) + " " + State(x.Final.State) + " " + Sigs(x.Final.Sigs) + ")"
	case *client.ChannelUpdateAccMsg:
		return hx.App("MUpdateAcc", hx.Hex(x.ChannelID[:]), hx.N(x.Version), hx.Hex(x.Sig))
	case *client.ChannelUpdateRejMsg:
		return hx.App("MUpdateRej", hx.Hex(x.ChannelID[:]), hx.N(x.Version), hx.Hex([]byte(x.Reason)))
	case *client.ChannelSyncMsg:
		return hx.App("MSync", hx.N(uint64(x.Phase)), Tx(x.CurrentTX))
	}
	panic(fmt.Sprintf("unknown message type %T", m))
}

func Envelope(e *wire.Envelope) string {
	return hx.App("mkEnv", Ramap(e.Sender), Ramap(e.Recipient), Msg(e.Msg))
}

// ---------- generation ----------

func (g *Gen) WAddr() map[wallet.BackendID]wallet.Address {
	return map[wallet.BackendID]wallet.Address{0: g.Account().Address()}
}

// RAddr: a single-entry wire address map; the key is mostly backend 0 but the wire format carries any
// int32 key, so other keys are exercised too.
func (g *Gen) RAddr() map[wallet.BackendID]wire.Address {
	keys := []int{0, 0, 0, 1, 2, 7, 300}
	return map[wallet.BackendID]wire.Address{wallet.BackendID(keys[g.R.Intn(len(keys))]): simwire.NewRandomAddress(g.R)}
}

func (g *Gen) RAddrs(n int) []map[wallet.BackendID]wire.Address {
	out := make([]map[wallet.BackendID]wire.Address, n)
	for i := range out {
		out[i] = g.RAddr()
	}
	return out
}

func (g *Gen) Nonce() *big.Int {
	b := make([]byte, 1+g.R.Intn(32))
	g.R.Read(b)
	return new(big.Int).SetBytes(b)
}

func (g *Gen) Aux() (a channel.Aux) {
	if g.R.Intn(2) == 0 {
		g.R.Read(a[:])
	}
	return
}

func (g *Gen) Params(n int) *channel.Params {
	parts := make([]map[wallet.BackendID]wallet.Address, n)
	for i := range parts {
		parts[i] = g.WAddr()
	}
	app, _ := g.AppData()
	p, err := channel.NewParams(1+g.R.Uint64()>>uint(g.R.Intn(64)), parts, app, g.Nonce(), g.R.Intn(2) == 0, g.R.Intn(2) == 0, g.Aux())
	if err != nil {
		panic(err)
	}
	return p
}

func (g *Gen) Sig() wallet.Sig {
	s := make([]byte, 64)
	g.R.Read(s)
	return s
}

func (g *Gen) SigsN(n int) []wallet.Sig {
	out := make([]wallet.Sig, n)
	for i := range out {
		if g.R.Intn(3) != 0 {
			out[i] = g.Sig()
		}
	}
	return out
}

func (g *Gen) Tx() channel.Transaction {
	if g.R.Intn(8) == 0 {
		return channel.Transaction{}
	}
	s := g.State()
	return channel.Transaction{State: s, Sigs: g.SigsN(s.NumParts())}
}

func (g *Gen) id32() (x [32]byte) { g.R.Read(x[:]); return }

func (g *Gen) Str() string {
	b := make([]byte, g.R.Intn(40))
	g.R.Read(b)
	return string(b)
}

func (g *Gen) BaseProp() client.BaseChannelProposal {
	app, data := g.AppData()
	al := g.Alloc(1+g.R.Intn(3), 2+g.R.Intn(3), g.R.Intn(2))
	fa := al.Balances.Clone()
	return client.BaseChannelProposal{ProposalID: g.id32(), ChallengeDuration: g.R.Uint64() >> uint(g.R.Intn(64)), NonceShare: g.id32(),
		App: app, InitData: data, InitBals: &al, FundingAgreement: fa, Aux: g.Aux()}
}

func (g *Gen) Update() client.ChannelUpdateMsg {
	return client.ChannelUpdateMsg{ChannelUpdate: client.ChannelUpdate{State: g.State(), ActorIdx: g.Index()}, Sig: g.Sig()}
}

func (g *Gen) IndexMap() []channel.Index {
	m := make([]channel.Index, g.R.Intn(4))
	for i := range m {
		m[i] = g.Index()
	}
	return m
}

// Msg returns a well-formed message of the given wire type.
func (g *Gen) Msg(t wire.Type) wire.Msg {
	switch t {
	case wire.Ping:
		return wire.NewPingMsg()
	case wire.Pong:
		return wire.NewPongMsg()
	case wire.Shutdown:
		return &wire.ShutdownMsg{Reason: g.Str()}
	case wire.AuthResponse:
		return &wire.AuthResponseMsg{Signature: []byte(g.Str())}
	case wire.LedgerChannelProposal:
		return &client.LedgerChannelProposalMsg{BaseChannelProposal: g.BaseProp(), Participant: g.WAddr(), Peers: g.RAddrs(2 + g.R.Intn(3))}
	case wire.LedgerChannelProposalAcc:
		return &client.LedgerChannelProposalAccMsg{BaseChannelProposalAcc: client.BaseChannelProposalAcc{ProposalID: g.id32(), NonceShare: g.id32()}, Participant: g.WAddr()}
	case wire.SubChannelProposal:
		return &client.SubChannelProposalMsg{BaseChannelProposal: g.BaseProp(), Parent: g.ID()}
	case wire.SubChannelProposalAcc:
		return &client.SubChannelProposalAccMsg{BaseChannelProposalAcc: client.BaseChannelProposalAcc{ProposalID: g.id32(), NonceShare: g.id32()}}
	case wire.VirtualChannelProposal:
		n := 2 + g.R.Intn(2)
		parents := make([]channel.ID, n)
		imaps := make([][]channel.Index, n)
		for i := range parents {
			parents[i] = g.ID()
			imaps[i] = g.IndexMap()
		}
		return &client.VirtualChannelProposalMsg{BaseChannelProposal: g.BaseProp(), Proposer: g.WAddr(), Peers: g.RAddrs(n), Parents: parents, IndexMaps: imaps}
	case wire.VirtualChannelProposalAcc:
		return &client.VirtualChannelProposalAccMsg{BaseChannelProposalAcc: client.BaseChannelProposalAcc{ProposalID: g.id32(), NonceShare: g.id32()}, Responder: g.WAddr()}
	case wire.ChannelProposalRej:
		return &client.ChannelProposalRejMsg{ProposalID: g.id32(), Reason: g.Str()}
	case wire.ChannelUpdate:
		u := g.Update()
		return &u
	case wire.VirtualChannelFundingProposal:
		s := g.State()
		return &client.VirtualChannelFundingProposalMsg{ChannelUpdateMsg: g.Update(),
			Initial: channel.SignedState{Params: g.Params(s.NumParts()), State: s, Sigs: g.SigsN(s.NumParts())}, IndexMap: g.IndexMap()}
	case wire.VirtualChannelSettlementProposal:
		s := g.State()
		return &client.VirtualChannelSettlementProposalMsg{ChannelUpdateMsg: g.Update(),
			Final: channel.SignedState{Params: g.Params(s.NumParts()), State: s, Sigs: g.SigsN(s.NumParts())}}
	case wire.ChannelUpdateAcc:
		return &client.ChannelUpdateAccMsg{ChannelID: g.ID(), Version: g.R.Uint64(), Sig: g.Sig()}
	case wire.ChannelUpdateRej:
		return &client.ChannelUpdateRejMsg{ChannelID: g.ID(), Version: g.R.Uint64(), Reason: g.Str()}
	case wire.ChannelSync:
		return &client.ChannelSyncMsg{Phase: channel.Phase(g.R.Intn(12)), CurrentTX: g.Tx()}
	}
	panic("unknown type")
}

func (g *Gen) Envelope(t wire.Type) *wire.Envelope {
	return &wire.Envelope{Sender: g.RAddr(), Recipient: g.RAddr(), Msg: g.Msg(t)}
}
