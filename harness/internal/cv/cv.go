// Package cv generates go-perun channel values and renders them as terms of coq/Model/Channel.v.
package cv

import (
	"bytes"
	"math/big"
	"math/rand"

	simchannel "perun.network/go-perun/backend/sim/channel"
	simwallet "perun.network/go-perun/backend/sim/wallet"
	"perun.network/go-perun/apps/payment"
	"perun.network/go-perun/channel"
	"perun.network/go-perun/wallet"
	"verif/harness/internal/hx"
)

// ---------- rendering ----------

func SubAlloc(s channel.SubAlloc) string {
	return hx.App("mkSA", hx.Hex(s.ID[:]), hx.ListOf(s.Bals, hx.Z),
		hx.ListOf(s.IndexMap, func(i channel.Index) string { return hx.N(uint64(i)) }))
}

func Bals(b channel.Balances) string {
	return hx.ListOf(b, func(r []channel.Bal) string { return hx.ListOf(r, hx.Z) })
}

func AssetID(a channel.Asset) uint64 {
	if sa, ok := a.(*simchannel.Asset); ok {
		return sa.ID
	}
	panic("non-sim asset")
}

func Alloc(a channel.Allocation) string {
	return hx.App("mkAlloc",
		hx.ListOf(a.Backends, func(b wallet.BackendID) string { return hx.N(uint64(b)) }),
		hx.ListOf(a.Assets, func(x channel.Asset) string { return hx.N(AssetID(x)) }),
		Bals(a.Balances), hx.ListOf(a.Locked, SubAlloc))
}

func AppDef(a channel.App) string {
	if channel.IsNoApp(a) {
		return "None"
	}
	b, err := a.Def().MarshalBinary()
	if err != nil {
		panic(err)
	}
	return hx.Opt(true, hx.Hex(b))
}

func Data(d channel.Data) string {
	b, err := d.MarshalBinary()
	if err != nil {
		panic(err)
	}
	return hx.Hex(b)
}

func State(s *channel.State) string {
	return hx.App("mkState", hx.Hex(s.ID[:]), hx.N(s.Version), Alloc(s.Allocation), AppDef(s.App), Data(s.Data), hx.Bool(s.IsFinal))
}

// Enc encodes with the native serializer; ok=false when Encode returned an error; panics are reported.
func Enc(e interface{ Encode(w *bytes.Buffer) error }) ([]byte, bool) { return nil, false }

// ---------- generation ----------

type Gen struct {
	R *rand.Rand
}

func (g *Gen) ID() (id channel.ID) { g.R.Read(id[:]); return }

// Bal returns a non-negative balance; sizes vary from one byte to 1024 bits.
func (g *Gen) Bal() *big.Int {
	switch g.R.Intn(10) {
	case 0:
		return big.NewInt(0)
	case 1, 2, 3, 4, 5:
		return big.NewInt(int64(g.R.Intn(1000)))
	case 6, 7:
		return new(big.Int).SetUint64(g.R.Uint64())
	default:
		n := 1 + g.R.Intn(128)
		b := make([]byte, n)
		g.R.Read(b)
		return new(big.Int).SetBytes(b)
	}
}

// Index returns a participant/asset index: mostly small, sometimes using the high byte.
func (g *Gen) Index() channel.Index {
	switch g.R.Intn(6) {
	case 0:
		return channel.Index(256 + g.R.Intn(65280))
	case 1:
		return channel.Index(255 + g.R.Intn(3))
	default:
		return channel.Index(g.R.Intn(5))
	}
}

func (g *Gen) Asset() channel.Asset { return &simchannel.Asset{ID: g.R.Uint64() >> uint(g.R.Intn(64))} }

func (g *Gen) SubAlloc(nAssets int) channel.SubAlloc {
	bals := make([]channel.Bal, nAssets)
	for i := range bals {
		bals[i] = g.Bal()
	}
	var im []channel.Index
	switch g.R.Intn(3) {
	case 0:
		im = nil
	case 1:
		im = []channel.Index{}
	default:
		im = make([]channel.Index, 1+g.R.Intn(4))
		for i := range im {
			im[i] = g.Index()
		}
	}
	if g.R.Intn(2) == 0 {
		return *channel.NewSubAlloc(g.ID(), bals, im)
	}
	return channel.SubAlloc{ID: g.ID(), Bals: bals, IndexMap: im}
}

// Alloc returns a valid allocation with the given dimensions.
func (g *Gen) Alloc(nAssets, nParts, nLocked int) channel.Allocation {
	a := channel.Allocation{}
	a.Assets = make([]channel.Asset, nAssets)
	a.Backends = make([]wallet.BackendID, nAssets)
	a.Balances = make(channel.Balances, nAssets)
	for i := range a.Assets {
		a.Assets[i] = g.Asset()
		a.Backends[i] = 0
		a.Balances[i] = make([]channel.Bal, nParts)
		for j := range a.Balances[i] {
			a.Balances[i][j] = g.Bal()
		}
	}
	if nLocked > 0 || g.R.Intn(2) == 0 {
		a.Locked = make([]channel.SubAlloc, nLocked)
		for i := range a.Locked {
			a.Locked[i] = g.SubAlloc(nAssets)
		}
	}
	return a
}

var (
	PayDef  = simchannel.NewRandomAppID(rand.New(rand.NewSource(11)))
	MockDef = simchannel.NewRandomAppID(rand.New(rand.NewSource(12)))
	PayApp  = &payment.App{ID: PayDef}
	MockApp = channel.NewMockApp(MockDef)
)

func init() {
	channel.RegisterApp(PayApp)
	channel.RegisterApp(MockApp)
}

// AppData picks one of the three state apps of the tree with matching data.
func (g *Gen) AppData() (channel.App, channel.Data) {
	switch g.R.Intn(3) {
	case 0:
		return channel.NoApp(), channel.NoData()
	case 1:
		return PayApp, channel.NoData()
	default:
		return MockApp, channel.NewMockOp(channel.MockOp(g.R.Intn(3)))
	}
}

func (g *Gen) State() *channel.State {
	app, data := g.AppData()
	nl := 0
	if g.R.Intn(2) == 0 {
		nl = 1 + g.R.Intn(3)
	}
	return &channel.State{ID: g.ID(), Version: g.R.Uint64() >> uint(g.R.Intn(64)), App: app, Data: data,
		Allocation: g.Alloc(1+g.R.Intn(4), 2+g.R.Intn(3), nl), IsFinal: g.R.Intn(2) == 0}
}

// Account derives the key from its own PRNG: ecdsa.GenerateKey consumes a nondeterministic number
// of bytes, which must not shift the main stream.
func (g *Gen) Account() *simwallet.Account {
	return simwallet.NewRandomAccount(rand.New(rand.NewSource(g.R.Int63())))
}
