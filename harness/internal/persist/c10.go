package persist

import (
	"bytes"
	"fmt"
	"math/rand"
	"os"
	"path/filepath"
	"regexp"
	"strings"

	"perun.network/go-perun/channel"
	"perun.network/go-perun/channel/persistence/keyvalue"
	"polycry.pt/poly-go/sortedkv"
	"verif/harness/internal/cv"
	"verif/harness/internal/hx"
)

// ---------- cases files with a preamble (state table) ----------

type fileWriter struct {
	dir    string
	fn     string // mismatches10 / mismatches11
	nfiles int
	total  int
}

// Repeated sub-terms are named once per file: Coq spends its time parsing and type-checking the
// literals (about ten AST nodes per character of a string literal), not evaluating the model.
var internPasses = []struct {
	re     *regexp.Regexp
	prefix string
	typ    string
}{
	{regexp.MustCompile(`\(unhex "[0-9a-f]{4,}"\)`), "h", "bytes"},
	{regexp.MustCompile(`\[(?:\(Some \(TSig \d+%N \d+%nat\)\)|None)(?:; (?:\(Some \(TSig \d+%N \d+%nat\)\)|None))*\]`), "g", "list (option tokref)"},
	{regexp.MustCompile(`\(Some \(\d+%nat, g\d+\)\)`), "x", "rtx"},
}

func intern(parts ...string) (defs string, out []string) {
	out = parts
	var sb strings.Builder
	for _, pass := range internPasses {
		count := map[string]int{}
		var order []string
		for _, p := range out {
			for _, m := range pass.re.FindAllString(p, -1) {
				if count[m] == 0 {
					order = append(order, m)
				}
				count[m]++
			}
		}
		name := map[string]string{}
		for _, lit := range order {
			if count[lit] >= 2 {
				name[lit] = fmt.Sprintf("%s%d", pass.prefix, len(name))
				fmt.Fprintf(&sb, "Definition %s : %s := %s.\n", name[lit], pass.typ, lit)
			}
		}
		next := make([]string, len(out))
		for i, p := range out {
			next[i] = pass.re.ReplaceAllStringFunc(p, func(lit string) string {
				if n, ok := name[lit]; ok {
					return n
				}
				return lit
			})
		}
		out = next
	}
	return sb.String(), out
}

func (w *fileWriter) write(t *Tables, cases []string) {
	if len(cases) == 0 {
		return
	}
	defs, body := intern(strings.Join(t.sts, ";\n"), strings.Join(cases, ";\n"))
	var sb strings.Builder
	sb.WriteString("From V Require Import Run.Compare_Persist.\nOpen Scope list_scope.\n")
	sb.WriteString(defs)
	fmt.Fprintf(&sb, "Definition sts := [\n%s\n].\n", body[0])
	fmt.Fprintf(&sb, "Definition cases := [\n%s\n].\n", body[1])
	fmt.Fprintf(&sb, "Definition M := Eval vm_compute in %s sts %d%%nat cases.\nPrint M.\n", w.fn, w.total)
	name := filepath.Join(w.dir, fmt.Sprintf("cases_%03d.v", w.nfiles))
	if err := os.WriteFile(name, []byte(sb.String()), 0o644); err != nil {
		panic(err)
	}
	w.nfiles++
	w.total += len(cases)
}

// rawBytes renders raw store bytes (keys) as a concatenation split at the given atoms (channel ids,
// peer encodings), so that the repeated parts are interned; Coq reassembles the exact bytes.
func rawBytes(b []byte, atoms [][]byte) string {
	for _, a := range atoms {
		if len(a) == 0 {
			continue
		}
		if i := bytes.Index(b, a); i >= 0 {
			var parts []string
			if i > 0 {
				parts = append(parts, rawBytes(b[:i], atoms))
			}
			parts = append(parts, hx.Hex(a))
			if i+len(a) < len(b) {
				parts = append(parts, rawBytes(b[i+len(a):], atoms))
			}
			return "(" + strings.Join(parts, " ++ ") + ")"
		}
	}
	return hx.Hex(b)
}

func hexKeys(ks []string, atoms [][]byte) string {
	return hx.ListOf(ks, func(k string) string { return rawBytes([]byte(k), atoms) })
}

// ---------- C10 ----------

type boundary struct {
	term    string
	view    chanView // memorydb
	peer    listView
	lview   chanView // LevelDB
	lpeer   listView
	cview   chanView // reopened copy of the LevelDB directory
	cpeer   listView
	crashed bool
	crash  string // non-empty: what differed when the LevelDB directory was copied and reopened here
	differ string // non-empty: the two stores disagreed
}

type h10 struct {
	c      *Ctx
	st     *stores
	fdb    *FaultDB
	probe  Peer
	class  string
	res    *hx.Result
	caseNo int
	cur    []boundary
	opLog  []string
	crashP int // one boundary in crashP is also checked through a copied LevelDB directory
	tmp    string
}

// bviewTerm renders RestoreChannel + RestorePeer(probe) observed on one store.
func (h *h10) bviewTerm(cv chanView, pv listView) string {
	code := uint64(2)
	switch {
	case pv.end == "ok" && len(pv.chans) == 0:
		code = 0
	case pv.end == "ok" && len(pv.chans) == 1 && cv.snap != nil && h.c.viewTerm(pv.chans[0]) == h.c.viewTerm(*cv.snap):
		code = 1
	}
	switch {
	case cv.panicked:
		return "BPanic"
	case cv.snap != nil:
		return hx.App("BOk", h.c.viewTerm(*cv.snap), hx.N(code))
	case cv.notFound:
		return hx.App("BNotFound", hx.N(code))
	}
	return "BErr"
}

// observe runs at a write boundary: it only records what the restorer returns on each store.
// Rendering is deferred until the operation has returned (the machine's own signature is
// registered in the token table only then).
func (h *h10) observe() boundary {
	id := h.c.ID()
	var b boundary
	b.view, b.peer = restoreChannel(h.st.mem, id), restorePeer(h.st.mem, h.probe.Addr)
	b.lview, b.lpeer = restoreChannel(h.st.ldb, id), restorePeer(h.st.ldb, h.probe.Addr)
	if h.crashP > 0 && h.c.G.R.Intn(h.crashP) == 0 {
		db, done, err := h.st.crashCopy(h.tmp)
		if err != nil {
			b.crash = "copy of the LevelDB directory cannot be opened: " + err.Error()
		} else {
			b.cview, b.cpeer, b.crashed = restoreChannel(db, id), restorePeer(db, h.probe.Addr), true
			done()
		}
	}
	return b
}

// render fills in the terms of the boundaries of the operation that just returned.
func (h *h10) render(bs []boundary) {
	for i := range bs {
		b := &bs[i]
		b.term = h.bviewTerm(b.view, b.peer)
		lt := h.bviewTerm(b.lview, b.lpeer)
		if lt != b.term {
			b.differ = "memorydb: " + b.term + " / leveldb: " + lt
		}
		if b.crashed {
			if ct := h.bviewTerm(b.cview, b.cpeer); ct != lt {
				b.crash = "reopened copy: " + ct + " / live: " + lt
			}
		}
	}
}

func (h *h10) fail(method, opKind, what string) {
	h.res.Fail(hx.Failure{Site: "keyvalue.PersistRestorer." + method, InputClass: h.class + "/" + opKind, What: what, Case: h.caseNo,
		Replay: map[string]interface{}{"params": h.c.ParamsTerm(), "n": h.c.N, "me": h.c.Me, "peers": len(h.c.Peers), "ops": append([]string(nil), h.opLog...)}})
}

// judge applies the property text to the views recorded at the boundaries of one operation:
// before/after are the live snapshots (nil = the channel is not persisted at that point).
func (h *h10) judge(opKind string, completed bool, before, after *Snap, bs []boundary) {
	method := persisterMethod(opKind)
	n := h.c.N
	is := func(v Snap, s *Snap) bool { return s != nil && snapEq(v, *s, n) }
	for k, b := range bs {
		last := k == len(bs)-1
		where := fmt.Sprintf("after atomic write %d/%d of %s", k+1, len(bs), method)
		if b.differ != "" {
			h.fail(method, opKind, where+": the stores disagree: "+b.differ)
		}
		if b.crash != "" {
			h.fail(method, opKind, where+": "+b.crash)
		}
		switch {
		case b.view.snap != nil:
			v := *b.view.snap
			if s := h.c.staleSigs(v); s != "" {
				h.fail(method, opKind, where+": "+s)
			}
			if last && completed {
				if !is(v, after) {
					h.fail(method, opKind, fmt.Sprintf("%s (operation completed): restored %v, the machine is %v", where, v, descr(after)))
				}
			} else if !is(v, before) && !is(v, after) {
				h.fail(method, opKind, fmt.Sprintf("%s: restored %v is neither the machine before %v nor after %v", where, v, descr(before), descr(after)))
			}
		case b.view.notFound:
			if last && completed && after != nil {
				h.fail(method, opKind, where+" (operation completed): the channel cannot be restored")
			} else if before != nil && after != nil {
				h.fail(method, opKind, where+": the channel cannot be restored")
			}
		default:
			h.fail(method, opKind, where+": RestoreChannel fails: "+b.view.err)
		}
		// RestorePeer on the same frozen store
		if b.peer.end != "ok" {
			h.fail(method, opKind, where+": RestorePeer fails: "+b.peer.err)
		}
		for _, v := range b.peer.chans {
			if !is(v, before) && !is(v, after) {
				h.fail(method, opKind, fmt.Sprintf("%s: RestorePeer yields %v, neither the machine before nor after", where, v))
			}
		}
	}
}

func descr(s *Snap) string {
	if s == nil {
		return "<not persisted>"
	}
	return s.String()
}

// settled checks the store once an operation has returned (also when it wrote nothing).
func (h *h10) settled(opKind string, after *Snap) {
	for i, db := range []sortedkv.Database{h.st.mem, h.st.ldb} {
		name := []string{"memorydb", "leveldb"}[i]
		v := restoreChannel(db, h.c.ID())
		switch {
		case v.snap != nil:
			if after == nil {
				h.fail(persisterMethod(opKind), opKind, name+": a removed channel can still be restored")
			} else if !snapEq(*v.snap, *after, h.c.N) {
				h.fail(persisterMethod(opKind), opKind, fmt.Sprintf("%s: after the operation the store restores %v but the machine is %v", name, *v.snap, *after))
			}
		case v.notFound:
			if after != nil {
				h.fail(persisterMethod(opKind), opKind, name+": the channel cannot be restored after the operation")
			}
		default:
			h.fail(persisterMethod(opKind), opKind, name+": RestoreChannel fails after the operation: "+v.err)
		}
	}
}

func bterms(bs []boundary) string {
	return hx.ListOf(bs, func(b boundary) string { return b.term })
}

// runHistory10 runs one history on a fresh channel over memorydb + LevelDB and returns the case term.
func runHistory10(g *cv.Gen, t *Tables, res *hx.Result, st *stores, out string, k int, class string, maxLen, crashP int, big bool) string {
	n := []int{2, 2, 2, 2, 3, 3, 3, 4}[g.R.Intn(8)]
	// participant counts around every width boundary of the signature key encoding (sigKey/sigKeys:
	// decimal index padded to a width derived from the count): 9/10/11 always, 99/100/101 when asked
	if b := boundaryParts(k, big); b > 0 {
		n = b
		if n >= 99 { // keep the case text bounded: a short deliberate history
			class = []string{"boundary", "boundary-lifecycle", "boundary"}[(k/400)%3]
			maxLen = 6
		}
	}
	kinds := []string{"none", "pay", "mock"}
	c := NewCtx(g, t, n, g.R.Intn(n), kinds[g.R.Intn(3)])
	np := n
	switch g.R.Intn(12) {
	case 0:
		np = 0
	case 1:
		np = 1
	}
	for i := 0; i < np; i++ {
		c.Peers = append(c.Peers, NewPeer(g))
	}
	if np >= 2 && g.R.Intn(12) == 0 {
		c.Peers[1] = c.Peers[0] // the same peer listed twice
	}
	probe := NewPeer(g)
	if np > 0 && g.R.Intn(8) != 0 {
		probe = c.Peers[g.R.Intn(np)]
	}
	if g.R.Intn(5) < 2 {
		id := g.ID()
		c.Parent = &id
	}
	st.reset()
	fdb := &FaultDB{DBs: []sortedkv.Database{st.mem, st.ldb}}
	if g.R.Intn(2) == 0 {
		fdb.DBs = []sortedkv.Database{st.ldb, st.mem} // LevelDB answers the persister's reads
	}
	h := &h10{c: c, st: st, fdb: fdb, probe: probe, class: class, res: res, caseNo: len(res.CaseIndex), crashP: crashP,
		tmp: filepath.Join(out, "tmp_ldb", fmt.Sprintf("h%d_crash", k))}
	fdb.Hook = func(string) { h.cur = append(h.cur, h.observe()) }
	pr := keyvalue.NewPersistRestorer(fdb)

	// creation
	h.opLog = append(h.opLog, "Create")
	if err := c.Create(pr); err != nil {
		h.fail("ChannelCreated", "Create", "ChannelCreated fails: "+err.Error())
	}
	live := c.Live()
	h.render(h.cur)
	h.judge("Create", true, nil, &live, h.cur)
	h.settled("Create", &live)
	createT := bterms(h.cur)
	res.Count(class+"/Create", "OK", fmt.Sprintf("Create/%d/%d/%v", len(h.cur), len(c.Peers), c.Parent != nil), false)
	keys0 := rawKeys(st.mem)
	if strings.Join(keys0, "\x00") != strings.Join(rawKeys(st.ldb), "\x00") {
		h.fail("ChannelCreated", "Create", "memorydb and leveldb hold different key lists")
	}

	script := c.script(class)
	var opT, obsT []string
	L := len(script) + 3 + g.R.Intn(maxLen-2)
	if L > maxLen+len(script) {
		L = maxLen + len(script)
	}
	restartP := 24
	if strings.HasPrefix(class, "restart") {
		restartP = 7
	}
	for i := 0; i < L && !c.Removed; i++ {
		if (i < len(script) && script[i] == "Restart") || (i >= len(script) && g.R.Intn(restartP) == 0) {
			// the process comes up again: a new PersistRestorer on the same database, the machine rebuilt
			// from what it restores and used further through the new persister
			before := c.Live()
			h.cur = nil
			h.opLog = append(h.opLog, "Restart")
			pr = keyvalue.NewPersistRestorer(fdb)
			outc := "OK"
			ch, err := pr.RestoreChannel(bg, c.ID())
			if err == nil {
				err = c.Restart(pr, ch)
			}
			if err != nil {
				outc = "ERR"
				h.fail("RestoreChannel", class+"/Restart", "the channel cannot be restored at a restart: "+err.Error())
			}
			after := c.Live()
			if !snapEq(before, after, c.N) {
				h.fail("RestoreChannel", "Restart", fmt.Sprintf("the machine rebuilt at a restart is %v but the machine before the restart was %v", after, before))
			}
			bs := []boundary{h.observe()}
			h.cur = nil
			h.render(bs)
			h.judge("Restart", true, &before, &before, bs)
			opT = append(opT, "PRestart")
			obsT = append(obsT, "(R"+outc+", "+bterms(bs)+")")
			res.Count(class+"/Restart", outc, fmt.Sprintf("Restart/%d/%v/%s", before.Phase, before.Staging.State != nil, sigMask(before.Staging.Sigs)), false)
			continue
		}
		var o Op
		if i < len(script) {
			o = c.resolve(script[i])
		} else {
			o = c.randomOp(65)
		}
		before := c.Live()
		h.cur = nil
		term := "(PO " + c.opTerm(o) + ")"
		h.opLog = append(h.opLog, o.Kind+"("+o.Class+")")
		outc, sig, errText := c.Apply(o)
		after := c.Live()
		bs := h.cur
		h.render(bs)
		var afterP *Snap = &after
		if o.Kind == "SetWithdrawn" && outc == "OK" {
			afterP = nil
			c.Removed = true
		}
		completed := outc == "OK" || outc == "OKSig"
		h.judge(o.Kind, completed, &before, afterP, bs)
		if !completed && !snapEq(before, after, c.N) {
			h.fail(persisterMethod(o.Kind), o.Kind, "the operation failed ("+errText+") after changing the machine: the store is behind the machine")
			afterP = &before // what the store still holds
		}
		if !completed && len(bs) > 0 {
			h.fail(persisterMethod(o.Kind), o.Kind, "the operation failed ("+errText+") but wrote to the store")
		}
		h.settled(o.Kind, afterP)
		opT = append(opT, term)
		obsT = append(obsT, "("+c.outTerm(outc, sig)+", "+bterms(bs)+")")
		stg := before.Staging.State != nil
		nsig := 0
		for _, s := range before.Staging.Sigs {
			if s != nil {
				nsig++
			}
		}
		res.Count(class+"/"+o.Kind, outc, fmt.Sprintf("%s/%s/%d/%v/%v/%s/%d/%d", o.Kind, o.Class, before.Phase, stg, nsig > 0, outc, after.Phase, len(bs)), false)
	}
	keysEnd := rawKeys(st.mem)
	if strings.Join(keysEnd, "\x00") != strings.Join(rawKeys(st.ldb), "\x00") {
		h.fail("RestoreChannel", "end", "memorydb and leveldb hold different key lists")
	}
	if c.Removed {
		id := c.ID()
		for _, k := range keysEnd {
			if strings.Contains(k, string(id[:])) {
				h.fail("ChannelRemoved", "SetWithdrawn", fmt.Sprintf("key %q of the removed channel is left in the store", k))
			}
		}
	}
	res.CaseIndex = append(res.CaseIndex, fmt.Sprintf("%s/n%d/%s", class, c.N, c.Kind))
	res.Sample(map[string]interface{}{"class": class, "participants": c.N, "app": c.Kind, "peers": len(c.Peers), "parent": c.Parent != nil,
		"history": append([]string(nil), h.opLog...), "removed": c.Removed})
	cid := c.ID()
	atoms := [][]byte{cid[:]}
	for _, p := range c.Peers {
		atoms = append(atoms, p.Enc)
	}
	keysEndT := "None" // unchanged since creation
	if strings.Join(keysEnd, "\x00") != strings.Join(keys0, "\x00") {
		keysEndT = hx.Opt(true, hexKeys(keysEnd, atoms))
	}
	peers := hx.ListOf(c.Peers, func(p Peer) string { return hx.Hex(p.Enc) })
	return hx.App("mkC10", c.ParamsTerm(), hx.N(uint64(c.Me)), peers, c.ParentTerm(), hx.Hex(probe.Enc),
		createT, hexKeys(keys0, atoms), hx.List(opT), hx.List(obsT), keysEndT)
}

// boundaryParts schedules the participant counts at the width boundaries of the signature keys:
// three histories in every 40 use 9, 10, 11 participants; with big, three in every 400 use 99, 100, 101.
func boundaryParts(k int, big bool) int {
	if big {
		switch k % 400 {
		case 15:
			return 99
		case 16:
			return 100
		case 17:
			return 101
		}
	}
	switch k % 40 {
	case 5:
		return 9
	case 6:
		return 10
	case 7:
		return 11
	}
	return 0
}

var classes10 = []string{"random", "lifecycle", "sign-discard-update", "restart-discard-update", "force-over-signed", "restart-force",
	"progress-from-signing", "restart-progress", "random", "init-resign", "restart-random"}

// RunC10 is the driver of property C10.
func RunC10(seed int64, tier, out string) {
	hx.Seed(seed)
	pinWireAddress()
	g := &cv.Gen{R: rand.New(rand.NewSource(hx.Rng.Int63()))}
	res := hx.NewResult("C10", seed, tier)
	histories, maxLen, perFile, crashP := 240, 32, 15, 200
	if tier != "quick" {
		histories, maxLen, perFile, crashP = 2400, 120, 24, 100
	}
	w := &fileWriter{dir: out, fn: "mismatches10"}
	defer os.RemoveAll(filepath.Join(out, "tmp_ldb"))
	st := openStores(filepath.Join(out, "tmp_ldb", "db"))
	defer st.close()
	var t *Tables
	var cases []string
	for k := 0; k < histories; k++ {
		if t == nil {
			t = NewTables()
		}
		class := classes10[k%len(classes10)]
		cases = append(cases, runHistory10(g, t, res, st, out, k, class, maxLen, crashP, tier != "quick"))
		if len(cases) >= perFile {
			w.write(t, cases)
			cases, t = nil, nil
		}
	}
	if t != nil {
		w.write(t, cases)
	}
	res.PerFile = perFile
	res.Rule = "random and scripted histories of persistence.StateMachine operations on one channel over a fault database that forwards every write to memorydb and LevelDB; " +
		"at every Put/Batch.Apply boundary RestoreChannel and RestorePeer run on both frozen stores (and on a reopened copy of the LevelDB directory at sampled boundaries): " +
		"oracle = restored snapshot is the live machine before or after the operation (the latter once complete), every restored staging signature verifies for the restored staged state; " +
		"correspondence = Model.Persist predicts outcome, number of atomic writes, both views at every boundary and the raw key list. " +
		"distinct = distinct (operation, argument class, phase before, staged?, signed?, outcome, phase after, atomic writes)"
	_ = channel.InitActing
	res.Write(out)
}
