package persist

import (
	"fmt"
	"math/big"
	"strings"

	"perun.network/go-perun/channel"
	"perun.network/go-perun/channel/persistence"
	"perun.network/go-perun/channel/persistence/keyvalue"
	"perun.network/go-perun/wallet"
	"perun.network/go-perun/wire"
	"polycry.pt/poly-go/sortedkv"
)

// ---------- restorer views on one store ----------

type chanView struct {
	snap     *Snap
	notFound bool
	err      string
	panicked bool
}

func restoreChannel(db sortedkv.Database, id channel.ID) (v chanView) {
	defer func() {
		if r := recover(); r != nil {
			v = chanView{panicked: true, err: fmt.Sprint(r)}
		}
	}()
	ch, err := keyvalue.NewPersistRestorer(db).RestoreChannel(bg, id)
	if err != nil {
		return chanView{err: err.Error(), notFound: strings.Contains(err.Error(), "could not find channel") || !mentions(db, id)}
	}
	s := restoredSnap(ch)
	return chanView{snap: &s}
}

type listView struct {
	chans []Snap
	end   string // "ok", "err", "panic"
	err   string
}

func drainIt(mk func() (persistence.ChannelIterator, error)) (v listView) {
	defer func() {
		if r := recover(); r != nil {
			v.end, v.err = "panic", fmt.Sprint(r)
		}
	}()
	it, err := mk()
	if err != nil {
		return listView{end: "err", err: err.Error()}
	}
	for it.Next(bg) {
		v.chans = append(v.chans, restoredSnap(it.Channel()))
	}
	if err := it.Close(); err != nil {
		v.end, v.err = "err", err.Error()
		return v
	}
	v.end = "ok"
	return v
}

func restorePeer(db sortedkv.Database, p map[wallet.BackendID]wire.Address) listView {
	return drainIt(func() (persistence.ChannelIterator, error) { return keyvalue.NewPersistRestorer(db).RestorePeer(p) })
}

func restoreAll(db sortedkv.Database) listView {
	return drainIt(func() (persistence.ChannelIterator, error) { return keyvalue.NewPersistRestorer(db).RestoreAll() })
}

func endCode(e string) uint64 {
	switch e {
	case "ok":
		return 0
	case "err":
		return 1
	}
	return 2
}

// ---------- operation generator ----------

type cand struct {
	name string
	s    *channel.State
}

func (c *Ctx) candidates(cur *channel.State, actor int) []cand {
	ok := func() *channel.State { return c.Succ(cur, actor, false) }
	out := []cand{{"valid", ok()}, {"valid-final", c.Succ(cur, actor, true)}}
	{
		s := ok()
		s.ID[3] ^= 1
		out = append(out, cand{"other-id", s})
	}
	{
		s := ok()
		s.Version = cur.Version + 2
		out = append(out, cand{"version+2", s})
	}
	{
		s := ok()
		s.Balances[0][actor] = new(big.Int).Add(s.Balances[0][actor], big.NewInt(1))
		out = append(out, cand{"sum+1", s})
	}
	return out
}

func (c *Ctx) curState() *channel.State {
	cur := c.SM.CurrentTX().State
	if cur == nil {
		return c.Base(0, false)
	}
	if cur.Valid() != nil || cur.NumParts() != c.N {
		return c.Base(cur.Version, false)
	}
	return cur
}

// resolve turns a script atom into a concrete operation against the live machine.
func (c *Ctx) resolve(atom string) Op {
	g := c.G
	cur := c.curState()
	actor := g.R.Intn(c.N)
	switch {
	case atom == "Init":
		al := c.alloc(100)
		return Op{Kind: "Init", Alloc: &al, Data: c.data(), Class: "valid"}
	case atom == "Update":
		return Op{Kind: "Update", S: c.Succ(cur, actor, false), Actor: actor, Class: "valid"}
	case atom == "UpdateFinal":
		return Op{Kind: "Update", S: c.Succ(cur, actor, true), Actor: actor, Class: "valid-final"}
	case atom == "ForceUpdate":
		return Op{Kind: "ForceUpdate", S: c.Succ(cur, actor, false), Actor: actor, Class: "valid"}
	case atom == "SetProgressing" || atom == "SetProgressed":
		return Op{Kind: atom, S: c.Succ(cur, actor, false), Actor: actor, Class: "valid"}
	case strings.HasPrefix(atom, "AddSig:"):
		var i int
		fmt.Sscanf(atom, "AddSig:%d", &i)
		target := c.SM.StagingTX().State
		if target == nil {
			target = cur
		}
		return Op{Kind: "AddSig", Idx: i, Sig: c.Sign(i, target), Class: "valid"}
	}
	return Op{Kind: atom, Class: "-"}
}

func (c *Ctx) sigAll() []string {
	out := []string{"Sig"}
	for i := 0; i < c.N; i++ {
		if i != c.Me {
			out = append(out, fmt.Sprintf("AddSig:%d", i))
		}
	}
	return out
}

func (c *Ctx) someSigs() []string {
	out := []string{}
	if c.G.R.Intn(4) != 0 {
		out = append(out, "Sig")
	}
	for i := 0; i < c.N; i++ {
		if i != c.Me && c.G.R.Intn(2) == 0 {
			out = append(out, fmt.Sprintf("AddSig:%d", i))
		}
	}
	if len(out) == 0 {
		out = append(out, "Sig")
	}
	return out
}

func cat(xs ...[]string) []string {
	var out []string
	for _, x := range xs {
		out = append(out, x...)
	}
	return out
}

// script: the deliberate part of a history class; the rest of the history is random.
func (c *Ctx) script(class string) []string {
	toActing := cat([]string{"Init"}, c.sigAll(), []string{"EnableInit", "SetFunded"})
	switch class {
	case "lifecycle":
		return cat(toActing, []string{"Update"}, c.sigAll(), []string{"EnableUpdate", "UpdateFinal"}, c.sigAll(),
			[]string{"EnableFinal", "SetRegistering", "SetRegistered", "SetWithdrawing", "SetWithdrawn"})
	case "sign-discard-update":
		return cat(toActing, []string{"Update"}, c.someSigs(), []string{"Discard", "Update"})
	case "force-over-signed":
		return cat(toActing, []string{"Update"}, c.someSigs(), []string{"ForceUpdate"})
	case "progress-from-signing":
		return cat(toActing, []string{"Update"}, c.someSigs(), []string{"SetRegistered", "SetProgressing"}, c.someSigs(),
			[]string{"SetProgressed", "SetProgressing", "SetProgressed", "SetWithdrawing", "SetWithdrawn"})
	case "boundary": // first, last and a middle signature slot, then a restaged state
		return []string{"Init", "Sig", fmt.Sprintf("AddSig:%d", (c.Me+1)%c.N), fmt.Sprintf("AddSig:%d", c.N-1),
			fmt.Sprintf("AddSig:%d", c.N/2), fmt.Sprintf("AddSig:%d", 9%c.N), fmt.Sprintf("AddSig:%d", 10%c.N)}
	case "boundary-lifecycle": // every slot once, through to removal
		return cat(toActing, []string{"Update", "Sig", fmt.Sprintf("AddSig:%d", c.N-1), "SetRegistered", "SetWithdrawing", "SetWithdrawn"})
	// restarts: a staged update with signatures, the process restarts (new PersistRestorer, machine
	// rebuilt from the store), then the staged update is replaced through the new persister
	case "restart-discard-update":
		return cat(toActing, []string{"Update", "Sig"}, c.someSigs(), []string{"Restart", "Discard", "Update", "Restart"})
	case "restart-force":
		return cat(toActing, []string{"Update", "Sig"}, c.someSigs(), []string{"Restart", "ForceUpdate", "Sig", "Restart", "ForceUpdate"})
	case "restart-progress":
		return cat(toActing, []string{"Update"}, c.someSigs(), []string{"SetRegistered", "Restart", "SetProgressing", "Sig"}, c.someSigs(),
			[]string{"Restart", "SetProgressing", "Restart", "SetProgressed", "SetWithdrawing", "Restart", "SetWithdrawn"})
	case "restart-random":
		return cat([]string{"Init", "Sig", "Restart"}, c.sigAll()[1:], []string{"Restart", "EnableInit", "SetFunded", "Restart", "Update", "Sig", "Restart", "Update"})
	case "init-resign":
		return cat([]string{"Init"}, c.someSigs())
	}
	return nil
}

// randomOp picks the next operation; forward > 0 biases towards operations that make progress
// (percentage of phase-appropriate choices).
func (c *Ctx) randomOp(forward int) Op {
	g := c.G
	m := c.SM
	ph := m.Phase()
	stg := m.StagingTX()
	pick := func(xs ...string) string { return xs[g.R.Intn(len(xs))] }
	var kind string
	if g.R.Intn(100) < forward {
		switch ph {
		case channel.InitActing:
			kind = "Init"
		case channel.InitSigning:
			kind = pick("Sig", "AddSig", "AddSig", "EnableInit")
		case channel.Funding:
			kind = pick("SetFunded", "SetFunded", "SetFunded", "SetRegistering")
		case channel.Acting:
			kind = pick("Update", "Update", "Update", "Update", "CheckUpdate", "SetRegistering", "SetRegistered", "ForceUpdate")
		case channel.Signing:
			kind = pick("Sig", "AddSig", "AddSig", "AddSig", "EnableUpdate", "EnableFinal", "Discard", "ForceUpdate", "SetRegistered")
		case channel.Final:
			kind = pick("SetRegistering", "SetRegistered", "SetWithdrawing")
		case channel.Registering:
			kind = pick("SetRegistered")
		case channel.Registered:
			kind = pick("SetProgressing", "SetProgressed", "SetWithdrawing")
		case channel.Progressing:
			kind = pick("Sig", "AddSig", "SetProgressed", "SetProgressing")
		case channel.Progressed:
			kind = pick("SetProgressing", "SetWithdrawing", "SetWithdrawing")
		case channel.Withdrawing:
			kind = pick("SetWithdrawn")
		default:
			kind = pick("SetRegistered", "Sig")
		}
		// finish a fully signed staging instead of idling
		if (ph == channel.Signing || ph == channel.InitSigning) && stg.State != nil && g.R.Intn(2) == 0 {
			missing := -1
			for i, s := range stg.Sigs {
				if s == nil {
					missing = i
					break
				}
			}
			switch {
			case missing == c.Me:
				kind = "Sig"
			case missing >= 0:
				o := c.resolve(fmt.Sprintf("AddSig:%d", missing))
				return o
			case ph == channel.InitSigning:
				kind = "EnableInit"
			case stg.IsFinal:
				kind = "EnableFinal"
			default:
				kind = "EnableUpdate"
			}
		}
	} else {
		kind = pick("Init", "Update", "ForceUpdate", "CheckUpdate", "Sig", "AddSig", "EnableInit", "EnableUpdate", "EnableFinal", "Discard",
			"SetFunded", "SetRegistering", "SetRegistered", "SetProgressing", "SetProgressed", "SetWithdrawing", "SetWithdrawn")
		if (kind == "ForceUpdate" || kind == "SetProgressed") && m.CurrentTX().State == nil {
			kind = "Update"
		}
	}
	cur := c.curState()
	o := Op{Kind: kind, Class: "-"}
	switch kind {
	case "Init":
		al := c.alloc(100)
		o.Alloc, o.Data, o.Class = &al, c.data(), "valid"
		if g.R.Intn(6) == 0 {
			al.Balances[0] = al.Balances[0][:c.N-1]
			o.Class = "missing-participant"
		}
	case "Update", "CheckUpdate":
		actor := g.R.Intn(c.N)
		cands := c.candidates(cur, actor)
		cd := cands[0]
		switch r := g.R.Intn(10); {
		case r < 2:
			cd = cands[1]
		case r < 4:
			cd = cands[2+g.R.Intn(len(cands)-2)]
		}
		o.S, o.Actor, o.Class = cd.s, actor, cd.name
		if kind == "CheckUpdate" {
			o.Idx = (c.Me + 1) % c.N
			o.Sig = c.Sign(o.Idx, cd.s)
		}
	case "ForceUpdate", "SetProgressing", "SetProgressed":
		// forced / progressed states come from the adjudicator: valid states of this channel
		actor := g.R.Intn(c.N)
		o.S, o.Actor, o.Class = c.Succ(cur, actor, g.R.Intn(5) == 0), actor, "valid"
	case "AddSig":
		o.Idx = g.R.Intn(c.N)
		target := stg.State
		if target == nil {
			target = cur
		}
		switch g.R.Intn(10) {
		case 0:
			o.Sig, o.Class = c.Sign((o.Idx+1)%c.N, target), "other-signer"
		case 1:
			o.Sig, o.Class = c.Sign(o.Idx, cur), "replayed-current"
		case 2:
			o.Sig, o.Class = c.Sign(-1, target), "foreign"
		case 3:
			junk := make([]byte, 64)
			g.R.Read(junk)
			o.Sig, o.Class = junk, "junk"
		default:
			o.Sig, o.Class = c.Sign(o.Idx, target), "valid"
		}
	}
	return o
}

// mentions reports whether any key of the store contains the channel id: when none does, a failed
// RestoreChannel means "no such channel" whatever the wording of its error.
func mentions(db sortedkv.Database, id channel.ID) bool {
	for _, k := range rawKeys(db) {
		if strings.Contains(k, string(id[:])) {
			return true
		}
	}
	return false
}
