package persist

import (
	"bytes"
	"fmt"
	"math/rand"
	"os"
	"path/filepath"
	"sort"
	"strings"

	"perun.network/go-perun/channel"
	"perun.network/go-perun/channel/persistence/keyvalue"
	"polycry.pt/poly-go/sortedkv"
	"verif/harness/internal/cv"
	"verif/harness/internal/hx"
)

// ---------- C11: several channels, all restorer views after every step ----------

type world11 struct {
	g      *cv.Gen
	t      *Tables
	res    *hx.Result
	st     *stores
	pool   []Peer
	chans  []*Ctx
	peerIx [][]int // per channel: indices into pool
	class  string
	caseNo int
	views  []string       // interned views: "(ci, OV ...)"
	viewIx map[string]int // term -> index
	opLog  []string
}

func (w *world11) fail(site, cls, what string) {
	w.res.Fail(hx.Failure{Site: "keyvalue.PersistRestorer." + site, InputClass: cls, What: what, Case: w.caseNo,
		Replay: map[string]interface{}{"channels": len(w.chans), "peers": len(w.pool), "steps": append([]string(nil), w.opLog...)}})
}

// chanOf finds the table channel a restored snapshot belongs to (by its parameters).
func (w *world11) chanOf(s Snap) int {
	for i, c := range w.chans {
		if bytes.Equal(s.Params, c.encP) {
			return i
		}
	}
	return -1
}

// view interns the observed view of a restored channel.
func (w *world11) view(s Snap) int {
	ci := w.chanOf(s)
	var term string
	if ci < 0 {
		term = "(0%nat, OV 99%N None None [] false)"
	} else {
		term = "(" + hx.Nat(ci) + ", " + w.chans[ci].viewTerm(s) + ")"
	}
	if i, ok := w.viewIx[term]; ok {
		return i
	}
	w.viewIx[term] = len(w.views)
	w.views = append(w.views, term)
	return len(w.views) - 1
}

type obs11 struct {
	all    listView
	peers  []listView
	active [][]byte
	actErr string
	chans  []chanView
	keys   []string
}

func activePeers(db sortedkv.Database) (out [][]byte, errText string) {
	defer func() {
		if r := recover(); r != nil {
			errText = fmt.Sprint("panic: ", r)
		}
	}()
	ps, err := keyvalue.NewPersistRestorer(db).ActivePeers(bg)
	if err != nil {
		return nil, err.Error()
	}
	for _, p := range ps {
		out = append(out, encPeer(p))
	}
	sort.Slice(out, func(i, j int) bool { return bytes.Compare(out[i], out[j]) < 0 })
	return out, ""
}

func (w *world11) observeOn(db sortedkv.Database) obs11 {
	var o obs11
	o.all = restoreAll(db)
	for _, p := range w.pool {
		o.peers = append(o.peers, restorePeer(db, p.Addr))
	}
	o.active, o.actErr = activePeers(db)
	for _, c := range w.chans {
		o.chans = append(o.chans, restoreChannel(db, c.ID()))
	}
	o.keys = rawKeys(db)
	return o
}

func (w *world11) listTerm(v listView) string {
	ix := make([]string, len(v.chans))
	for i, s := range v.chans {
		ix[i] = hx.Nat(w.view(s))
	}
	return "(" + hx.List(ix) + ", " + hx.N(endCode(v.end)) + ")"
}

func (w *world11) poolIndex(enc []byte) int {
	for i, p := range w.pool {
		if bytes.Equal(p.Enc, enc) {
			return i
		}
	}
	return 999
}

func (w *world11) obsTerm(out string, o obs11, lastKeys *string, atoms [][]byte) string {
	peers := make([]string, len(o.peers))
	for i, v := range o.peers {
		peers[i] = w.listTerm(v)
	}
	act := make([]string, len(o.active))
	for i, a := range o.active {
		act[i] = hx.Nat(w.poolIndex(a))
	}
	if o.actErr != "" {
		act = []string{hx.Nat(998)}
	}
	cr := make([]string, len(o.chans))
	for i, v := range o.chans {
		switch {
		case v.panicked:
			cr[i] = "CPanic"
		case v.snap != nil:
			cr[i] = hx.App("CR", hx.Nat(w.view(*v.snap)))
		case v.notFound:
			cr[i] = "CNotFound"
		default:
			cr[i] = "CErr"
		}
	}
	keys := "None"
	joined := strings.Join(o.keys, "\x00")
	if joined != *lastKeys || *lastKeys == "\x01" {
		keys = hx.Opt(true, hexKeys(o.keys, atoms))
		*lastKeys = joined
	}
	return hx.App("mkMO", out, w.listTerm(o.all), hx.List(peers), hx.List(act), hx.List(cr), keys)
}

// summary canonicalises everything observed on one store, to compare the two stores.
func (w *world11) summary(o obs11) string {
	var sb strings.Builder
	lv := func(v listView) {
		for _, s := range v.chans {
			fmt.Fprintf(&sb, "%d,", w.view(s))
		}
		sb.WriteString(v.end + "|")
	}
	lv(o.all)
	for _, v := range o.peers {
		lv(v)
	}
	for _, a := range o.active {
		fmt.Fprintf(&sb, "%x,", a)
	}
	sb.WriteString(o.actErr + "|")
	for _, v := range o.chans {
		if v.snap != nil {
			fmt.Fprintf(&sb, "%d,", w.view(*v.snap))
		} else {
			fmt.Fprintf(&sb, "nf=%v/p=%v,", v.notFound, v.panicked)
		}
	}
	sb.WriteString(strings.Join(o.keys, "\x00"))
	return sb.String()
}

// oracle: the views against the plain reference set of live channels (property text of C11).
func (w *world11) oracle(o obs11, store, cls string, touched int, prev []chanView) {
	live := map[int]Snap{}
	for i, c := range w.chans {
		if c.Created && !c.Removed {
			live[i] = c.Live()
		}
	}
	// RestoreAll: exactly the live channels, each with its own data
	checkList := func(site string, v listView, want map[int]bool) {
		if v.end != "ok" {
			w.fail(site, cls, store+": iteration fails: "+v.err)
		}
		seen := map[int]bool{}
		for _, s := range v.chans {
			ci := w.chanOf(s)
			switch {
			case ci < 0:
				w.fail(site, cls, store+": yields a channel that was never created")
			case !want[ci]:
				w.fail(site, cls, fmt.Sprintf("%s: yields channel %d which is not expected there (removed, not created or not this peer's)", store, ci))
			case seen[ci]:
				w.fail(site, cls, fmt.Sprintf("%s: yields channel %d twice", store, ci))
			case !snapEq(s, live[ci], w.chans[ci].N):
				w.fail(site, cls, fmt.Sprintf("%s: channel %d restored as %v but the live machine is %v", store, ci, s, live[ci]))
			}
			if ci >= 0 {
				seen[ci] = true
			}
		}
		for ci := range want {
			if !seen[ci] {
				w.fail(site, cls, fmt.Sprintf("%s: live channel %d is missing", store, ci))
			}
		}
	}
	all := map[int]bool{}
	for ci := range live {
		all[ci] = true
	}
	checkList("RestoreAll", o.all, all)
	// RestorePeer: exactly the live channels that list this peer
	wantActive := map[string]bool{}
	for pi, p := range w.pool {
		want := map[int]bool{}
		for ci := range live {
			for _, q := range w.peerIx[ci] {
				if q == pi {
					want[ci] = true
					wantActive[string(p.Enc)] = true
				}
			}
		}
		checkList("RestorePeer", o.peers[pi], want)
	}
	// ActivePeers: exactly the peers of live channels
	if o.actErr != "" {
		w.fail("ActivePeers", cls, store+": ActivePeers fails: "+o.actErr)
	}
	got := map[string]bool{}
	for _, a := range o.active {
		if got[string(a)] {
			w.fail("ActivePeers", cls, store+": a peer is listed twice")
		}
		got[string(a)] = true
		if !wantActive[string(a)] {
			w.fail("ActivePeers", cls, store+": lists a peer without live channel")
		}
	}
	for a := range wantActive {
		if !got[a] {
			w.fail("ActivePeers", cls, store+": misses a peer of a live channel")
		}
	}
	// RestoreChannel: live channels with their data; removed / never created ones cannot be restored
	for ci, v := range o.chans {
		s, isLive := live[ci]
		switch {
		case v.snap != nil && !isLive:
			w.fail("RestoreChannel", cls, fmt.Sprintf("%s: channel %d is not live but can be restored", store, ci))
		case v.snap != nil && !snapEq(*v.snap, s, w.chans[ci].N):
			w.fail("RestoreChannel", cls, fmt.Sprintf("%s: channel %d restored as %v but the live machine is %v", store, ci, *v.snap, s))
		case v.snap == nil && isLive:
			w.fail("RestoreChannel", cls, fmt.Sprintf("%s: live channel %d cannot be restored: %s", store, ci, v.err))
		case v.snap == nil && !v.notFound:
			w.fail("RestoreChannel", cls, fmt.Sprintf("%s: restoring channel %d (not live) fails with an error other than not-found: %s", store, ci, v.err))
		}
		// frame: an operation on one channel does not change what is restored for another
		if prev != nil && ci != touched {
			a, b := prev[ci], v
			same := (a.snap == nil) == (b.snap == nil) && a.notFound == b.notFound
			if same && a.snap != nil {
				same = snapEq(*a.snap, *b.snap, w.chans[ci].N)
			}
			if !same {
				w.fail("RestoreChannel", cls, fmt.Sprintf("%s: the step on channel %d changed what is restored for channel %d", store, touched, ci))
			}
		}
	}
	// no key of a channel that is not live
	for ci, c := range w.chans {
		if _, isLive := live[ci]; isLive {
			continue
		}
		id := c.ID()
		for _, k := range o.keys {
			if strings.Contains(k, string(id[:])) {
				w.fail("ChannelRemoved", cls, fmt.Sprintf("%s: key %q belongs to channel %d which is not live", store, k, ci))
			}
		}
	}
	// every key belongs to a live channel: it contains the id of one
	for _, k := range o.keys {
		found := false
		for ci := range live {
			id := w.chans[ci].ID()
			if strings.Contains(k, string(id[:])) {
				found = true
				break
			}
		}
		if !found {
			w.fail("ChannelRemoved", cls, fmt.Sprintf("%s: key %q belongs to no live channel", store, k))
		}
	}
}

func runHistory11(g *cv.Gen, t *Tables, res *hx.Result, st *stores, maxSteps, k int, big bool) string {
	st.reset()
	w := &world11{g: g, t: t, res: res, st: st, viewIx: map[string]int{}, caseNo: len(res.CaseIndex)}
	np := 2 + g.R.Intn(3)
	for i := 0; i < np; i++ {
		w.pool = append(w.pool, NewPeer(g))
	}
	nc := 1 + g.R.Intn(6)
	kinds := []string{"none", "pay", "mock"}
	nparents := 0
	for i := 0; i < nc; i++ {
		n := 2 + g.R.Intn(2)
		if g.R.Intn(14) == 0 {
			n = 9 + g.R.Intn(3)
		}
		// participant counts at the width boundaries of the signature keys: the first channel of every
		// fourth history has 9, 10 or 11 participants; with big, of every 50th history 99, 100 or 101
		if i == 0 && k%4 == 1 {
			n = 9 + (k/4)%3
		}
		if i == 0 && big && k%50 == 7 {
			n = 99 + (k/50)%3
		}
		c := NewCtx(g, t, n, g.R.Intn(n), kinds[g.R.Intn(3)])
		// peers: a non-empty selection of the pool (shared between channels), occasionally a repeat
		k := 1 + g.R.Intn(np)
		perm := g.R.Perm(np)[:k]
		if k >= 2 && g.R.Intn(10) == 0 {
			perm[1] = perm[0]
		}
		for _, pi := range perm {
			c.Peers = append(c.Peers, w.pool[pi])
		}
		w.peerIx = append(w.peerIx, perm)
		switch r := g.R.Intn(10); {
		case r < 3 && i > 0: // parent: an earlier channel of the table (live, removed or not yet created)
			id := w.chans[g.R.Intn(i)].ID()
			c.Parent = &id
			nparents++
		case r == 3:
			id := g.ID()
			c.Parent = &id
			nparents++
		}
		w.chans = append(w.chans, c)
	}
	w.class = fmt.Sprintf("c%d/p%d/parents=%v", nc, np, nparents > 0)
	fdb := &FaultDB{DBs: []sortedkv.Database{st.mem, st.ldb}}
	if g.R.Intn(2) == 0 {
		fdb.DBs = []sortedkv.Database{st.ldb, st.mem}
	}
	pr := keyvalue.NewPersistRestorer(fdb)

	var atoms [][]byte
	for _, c := range w.chans {
		id := c.ID()
		atoms = append(atoms, append([]byte(nil), id[:]...))
	}
	for _, p := range w.pool {
		atoms = append(atoms, p.Enc)
	}
	var opT, obsT []string
	lastKeys := "\x01"
	var prevMem []chanView
	removedSoFar := 0
	for step := 0; step < maxSteps; step++ {
		var notCreated, live []int
		for i, c := range w.chans {
			switch {
			case !c.Created:
				notCreated = append(notCreated, i)
			case !c.Removed:
				live = append(live, i)
			}
		}
		if len(notCreated) == 0 && len(live) == 0 {
			break
		}
		var ci int
		var outc, opTerm, kind, cls string
		if len(notCreated) > 0 && (len(live) == 0 || g.R.Intn(8) == 0) {
			ci = notCreated[g.R.Intn(len(notCreated))]
			c := w.chans[ci]
			kind = "Create"
			outc = "OK"
			if err := c.Create(pr); err != nil {
				outc = "ERR"
				w.fail("ChannelCreated", "create", "ChannelCreated fails: "+err.Error())
			}
			opTerm = hx.App("MCreate", hx.Nat(ci))
			obsOut := "R" + outc
			cls = "after-create"
			if removedSoFar > 0 {
				cls = "after-create-after-removal"
			}
			w.opLog = append(w.opLog, fmt.Sprintf("Create(%d)", ci))
			opT = append(opT, opTerm)
			om, ol := w.observeOn(st.mem), w.observeOn(st.ldb)
			if w.summary(om) != w.summary(ol) {
				w.fail("stores", cls, "memorydb and leveldb disagree after "+kind)
			}
			w.oracle(om, "memorydb", cls, ci, prevMem)
			w.oracle(ol, "leveldb", cls, ci, nil)
			prevMem = om.chans
			obsT = append(obsT, w.obsTerm(obsOut, om, &lastKeys, atoms))
			res.Count(w.class+"/Create", outc, fmt.Sprintf("Create/%d/%v/%d", len(c.Peers), c.Parent != nil, len(live)), false)
			continue
		}
		// restart: more often while some live channel holds a staged state with a signature
		signedStaging := false
		for _, i := range live {
			stg := w.chans[i].SM.StagingTX()
			for _, sg := range stg.Sigs {
				if stg.State != nil && sg != nil {
					signedStaging = true
				}
			}
		}
		rp := 40
		if signedStaging {
			rp = 5
		}
		if g.R.Intn(rp) == 0 {
			// the process comes up again: a new PersistRestorer on the same database, every machine
			// rebuilt from what RestoreAll yields and used further through the new persister
			cls = "after-restart"
			outc = "OK"
			olds := map[int]Snap{}
			for _, i := range live {
				olds[i] = w.chans[i].Live()
			}
			pr = keyvalue.NewPersistRestorer(fdb)
			rebuilt := map[int]bool{}
			it, err := pr.RestoreAll()
			if err != nil {
				outc = "ERR"
				w.fail("RestoreAll", cls, "RestoreAll fails at a restart: "+err.Error())
			} else {
				for it.Next(bg) {
					ch := it.Channel()
					i := w.chanOf(restoredSnap(ch))
					if i < 0 || !w.chans[i].Created || w.chans[i].Removed {
						w.fail("RestoreAll", cls, "a restart restores a channel that is not live")
						continue
					}
					if err := w.chans[i].Restart(pr, ch); err != nil {
						w.fail("RestoreAll", cls, "a restored channel cannot be turned into a machine: "+err.Error())
						continue
					}
					rebuilt[i] = true
					if now := w.chans[i].Live(); !snapEq(olds[i], now, w.chans[i].N) {
						w.fail("RestoreAll", cls, fmt.Sprintf("channel %d rebuilt at a restart is %v but the machine before the restart was %v", i, now, olds[i]))
					}
				}
				if err := it.Close(); err != nil {
					outc = "ERR"
					w.fail("RestoreAll", cls, "RestoreAll fails at a restart: "+err.Error())
				}
			}
			for _, i := range live {
				if !rebuilt[i] {
					w.fail("RestoreAll", cls, fmt.Sprintf("live channel %d is lost at a restart", i))
				}
			}
			w.opLog = append(w.opLog, "Restart")
			opT = append(opT, "MRestart")
			om, ol := w.observeOn(st.mem), w.observeOn(st.ldb)
			if w.summary(om) != w.summary(ol) {
				w.fail("stores", cls, "memorydb and leveldb disagree after a restart")
			}
			w.oracle(om, "memorydb", cls, -1, prevMem)
			w.oracle(ol, "leveldb", cls, -1, nil)
			prevMem = om.chans
			obsT = append(obsT, w.obsTerm("R"+outc, om, &lastKeys, atoms))
			res.Count(w.class+"/Restart", outc, fmt.Sprintf("Restart/%d/%v/%d", len(live), signedStaging, removedSoFar), false)
			continue
		}
		ci = live[g.R.Intn(len(live))]
		c := w.chans[ci]
		o := c.randomOp(88)
		// after a restart the staged update is replaced through the new persister in most histories
		if stg := c.SM.StagingTX(); c.postRestart && c.SM.Phase() == channel.Signing && stg.State != nil && g.R.Intn(10) < 7 {
			o = c.resolve([]string{"Discard", "ForceUpdate", "Discard"}[g.R.Intn(3)])
		}
		kind = o.Kind
		before := c.SM.Phase()
		opTerm = hx.App("MOp", hx.Nat(ci), c.opTerm(o))
		var sig []byte
		outc, sig, _ = c.Apply(o)
		if o.Kind == "SetWithdrawn" && outc == "OK" {
			c.Removed = true
			removedSoFar++
		}
		cls = "after-op"
		switch {
		case c.Removed:
			cls = "after-removal"
			if c.Parent != nil {
				cls = "after-removal/parent"
			}
		case removedSoFar > 0:
			cls = "after-op-after-removal"
		}
		w.opLog = append(w.opLog, fmt.Sprintf("%s(%d)", o.Kind, ci))
		opT = append(opT, opTerm)
		om, ol := w.observeOn(st.mem), w.observeOn(st.ldb)
		if w.summary(om) != w.summary(ol) {
			w.fail("stores", cls, "memorydb and leveldb disagree after "+kind)
		}
		w.oracle(om, "memorydb", cls, ci, prevMem)
		w.oracle(ol, "leveldb", cls, ci, nil)
		prevMem = om.chans
		obsT = append(obsT, w.obsTerm(c.outTerm(outc, sig), om, &lastKeys, atoms))
		res.Count(w.class+"/"+o.Kind, outc, fmt.Sprintf("%s/%d/%s/%d/%d", o.Kind, before, outc, len(live), removedSoFar), false)
	}
	res.CaseIndex = append(res.CaseIndex, w.class)
	res.Sample(map[string]interface{}{"class": w.class, "channels": len(w.chans), "peers": len(w.pool), "removed": removedSoFar,
		"history": append([]string(nil), w.opLog...)})
	pool := hx.ListOf(w.pool, func(p Peer) string { return hx.Hex(p.Enc) })
	specs := make([]string, len(w.chans))
	for i, c := range w.chans {
		specs[i] = hx.App("mkCS", c.ParamsTerm(), hx.N(uint64(c.Me)),
			hx.ListOf(w.peerIx[i], hx.Nat), c.ParentTerm())
	}
	return hx.App("mkC11", pool, hx.List(specs), hx.List(w.views), hx.List(opT), hx.List(obsT))
}

// RunC11 is the driver of property C11.
func RunC11(seed int64, tier, out string) {
	hx.Seed(seed)
	pinWireAddress()
	g := &cv.Gen{R: rand.New(rand.NewSource(hx.Rng.Int63()))}
	res := hx.NewResult("C11", seed, tier)
	histories, maxSteps, perFile := 32, 90, 2
	if tier != "quick" {
		histories, maxSteps, perFile = 400, 250, 4
	}
	w := &fileWriter{dir: out, fn: "mismatches11"}
	defer os.RemoveAll(filepath.Join(out, "tmp_ldb"))
	st := openStores(filepath.Join(out, "tmp_ldb", "db"))
	defer st.close()
	var t *Tables
	var cases []string
	for k := 0; k < histories; k++ {
		if t == nil {
			t = NewTables()
		}
		cases = append(cases, runHistory11(g, t, res, st, maxSteps, k, tier != "quick"))
		if len(cases) >= perFile {
			w.write(t, cases)
			cases, t = nil, nil
		}
	}
	if t != nil {
		w.write(t, cases)
	}
	res.PerFile = perFile
	res.Rule = "random histories over 1-6 channels (2, 3 or 11 participants; with parent = earlier channel / unknown id / none) and a pool of 2-4 peers shared between channels; " +
		"creation, state-machine operations (88% phase-appropriate so that channels reach SetWithdrawn) and removal interleaved in any order, every write forwarded to memorydb and LevelDB; " +
		"after every step RestoreAll, RestorePeer for every pool peer, ActivePeers, RestoreChannel for every channel of the table and the raw key list on both stores: " +
		"oracle = plain reference set of live channels (exactly the live channels with their own data, peers of live channels, removed channels not restorable and without keys, other channels unchanged); " +
		"correspondence = Model.Persist predicts all views and the key list. distinct = distinct (operation, phase before, outcome, live channels, removed so far)"
	_ = channel.InitActing
	res.Write(out)
}
