package persist

import (
	"bytes"
	"context"
	"fmt"
	"math/big"
	"strings"

	simwallet "perun.network/go-perun/backend/sim/wallet"
	simwire "perun.network/go-perun/backend/sim/wire"
	"perun.network/go-perun/channel"
	"perun.network/go-perun/channel/persistence"
	"perun.network/go-perun/wallet"
	"perun.network/go-perun/wire"
	"perun.network/go-perun/wire/perunio"
	"verif/harness/internal/cv"
	"verif/harness/internal/hx"
)

var bg = context.Background()

// pinWireAddress makes the restorer decode peers as the sim wire addresses this driver generates.
// The constructor is process-global and the last package init wins: in cmd/vharness another driver
// links wire/net/simple, whose init replaces the sim constructor, and peers restored from the store
// would then come back as a different address type.
func pinWireAddress() {
	wire.SetNewAddressFunc(func() wire.Address { return simwire.NewAddress() })
}

// Tables are the per-file tables of a cases file: interned states and the token of every signature.
type Tables struct {
	sts   []string
	stIdx map[string]int
	sigs  map[string]string
}

func NewTables() *Tables { return &Tables{stIdx: map[string]int{}, sigs: map[string]string{}} }

func (t *Tables) St(s *channel.State) int {
	term := cv.State(s)
	if i, ok := t.stIdx[term]; ok {
		return i
	}
	t.stIdx[term] = len(t.sts)
	t.sts = append(t.sts, term)
	return len(t.sts) - 1
}

// Peer is a wire address of the peer pool with its encoding inside store keys and values.
type Peer struct {
	Addr map[wallet.BackendID]wire.Address
	Enc  []byte // perunio encoding of wire.AddressDecMap(Addr): the peer part of peer-table keys
}

func NewPeer(g *cv.Gen) Peer {
	a := map[wallet.BackendID]wire.Address{0: simwire.NewRandomAddress(g.R)}
	var b bytes.Buffer
	if err := perunio.Encode(&b, wire.AddressDecMap(a)); err != nil {
		panic(err)
	}
	return Peer{Addr: a, Enc: b.Bytes()}
}

func encPeer(a map[wallet.BackendID]wire.Address) []byte {
	var b bytes.Buffer
	if err := perunio.Encode(&b, wire.AddressDecMap(a)); err != nil {
		return []byte("<unencodable>")
	}
	return b.Bytes()
}

// Ctx is one channel: keys, parameters, app, peers and parent, and the real persisted machine.
type Ctx struct {
	G       *cv.Gen
	T       *Tables
	N, Me   int
	Accs    []*simwallet.Account
	Foreign *simwallet.Account
	Params  *channel.Params
	Kind    string
	Assets  []channel.Asset
	Peers   []Peer
	Parent  *channel.ID
	SM      *persistence.StateMachine
	Removed bool
	Created bool
	encP    []byte // encoded parameters
	// the machine was rebuilt by a restart and has not been operated since
	postRestart bool
}

func NewCtx(g *cv.Gen, t *Tables, n, me int, kind string) *Ctx {
	c := &Ctx{G: g, T: t, N: n, Me: me, Kind: kind}
	parts := make([]map[wallet.BackendID]wallet.Address, n)
	for i := 0; i < n; i++ {
		a := g.Account()
		c.Accs = append(c.Accs, a)
		parts[i] = map[wallet.BackendID]wallet.Address{0: a.Address()}
	}
	c.Foreign = g.Account()
	var app channel.App
	switch kind {
	case "none":
		app = channel.NoApp()
	case "pay":
		app = cv.PayApp
	default:
		app = cv.MockApp
	}
	nonce := new(big.Int).SetUint64(g.R.Uint64())
	p, err := channel.NewParams(uint64(1+g.R.Intn(100)), parts, app, nonce, true, false, channel.Aux{})
	if err != nil {
		panic(err)
	}
	c.Params = p
	c.encP = encParams(p)
	na := 1 + g.R.Intn(2)
	for i := 0; i < na; i++ {
		c.Assets = append(c.Assets, g.Asset())
	}
	return c
}

func (c *Ctx) ID() channel.ID { return c.Params.ID() }

func partTok(i int) string { return hx.N(uint64(i + 1)) }

func (c *Ctx) ParamsTerm() string {
	id := c.Params.ID()
	parts := make([]string, c.N)
	for i := range parts {
		parts[i] = partTok(i)
	}
	kind := "None"
	switch c.Kind {
	case "pay":
		kind = "(Some KPay)"
	case "mock":
		kind = "(Some KMock)"
	}
	return hx.App("mkMP", hx.Hex(id[:]), hx.List(parts), cv.AppDef(c.Params.App), kind)
}

func (c *Ctx) ParentTerm() string {
	if c.Parent == nil {
		return "None"
	}
	return hx.Opt(true, hx.Hex(c.Parent[:]))
}

func (c *Ctx) PeerAddrs() []map[wallet.BackendID]wire.Address {
	out := make([]map[wallet.BackendID]wire.Address, len(c.Peers))
	for i, p := range c.Peers {
		out[i] = p.Addr
	}
	return out
}

// Create builds the real machine, wraps it and announces it to the persister.
func (c *Ctx) Create(pr persistence.PersistRestorer) error {
	csm, err := channel.NewStateMachine(map[wallet.BackendID]wallet.Account{0: c.Accs[c.Me]}, *c.Params)
	if err != nil {
		panic(err)
	}
	sm := persistence.FromStateMachine(csm, pr)
	c.SM = &sm
	c.Created = true
	return pr.ChannelCreated(bg, csm, c.PeerAddrs(), c.Parent)
}

// Restart replaces the live machine by the one rebuilt from a restored channel (what a client does
// when it comes up again) and wraps it with the persister of the new process.
func (c *Ctx) Restart(pr persistence.PersistRestorer, ch *persistence.Channel) error {
	csm, err := channel.RestoreStateMachine(map[wallet.BackendID]wallet.Account{0: c.Accs[c.Me]}, ch)
	if err != nil {
		return err
	}
	sm := persistence.FromStateMachine(csm, pr)
	c.SM = &sm
	c.postRestart = true
	return nil
}

// ---------- signatures ----------

func (c *Ctx) Sign(signer int, s *channel.State) wallet.Sig {
	acc := c.Foreign
	tok := hx.N(100)
	if signer >= 0 {
		acc = c.Accs[signer]
		tok = partTok(signer)
	}
	sig, err := channel.Sign(acc, s, 0)
	if err != nil {
		return nil
	}
	c.T.sigs[string(sig)] = hx.App("TSig", tok, hx.Nat(c.T.St(s)))
	return sig
}

func (c *Ctx) tokPlain(sig wallet.Sig) string {
	if t, ok := c.T.sigs[string(sig)]; ok {
		return t
	}
	return "(TJunk 0)"
}

func (c *Ctx) Tok(sig wallet.Sig) string {
	if sig == nil {
		return "None"
	}
	return "(Some " + c.tokPlain(sig) + ")"
}

func (c *Ctx) regOwn(sig wallet.Sig, s *channel.State) {
	if sig != nil && s != nil {
		if _, ok := c.T.sigs[string(sig)]; !ok {
			c.T.sigs[string(sig)] = hx.App("TSig", partTok(c.Me), hx.Nat(c.T.St(s)))
		}
	}
}

// ---------- states ----------

func (c *Ctx) alloc(total int64) channel.Allocation {
	a := channel.Allocation{Assets: c.Assets, Backends: make([]wallet.BackendID, len(c.Assets))}
	a.Balances = make(channel.Balances, len(c.Assets))
	for i := range a.Balances {
		a.Balances[i] = make([]channel.Bal, c.N)
		rem := total
		for j := 0; j < c.N; j++ {
			v := rem
			if j < c.N-1 {
				v = c.G.R.Int63n(rem + 1)
			}
			rem -= v
			a.Balances[i][j] = big.NewInt(v)
		}
	}
	return a
}

func (c *Ctx) data() channel.Data {
	if c.Kind == "mock" {
		return channel.NewMockOp(channel.OpValid)
	}
	return channel.NoData()
}

func (c *Ctx) Base(version uint64, final bool) *channel.State {
	return &channel.State{ID: c.Params.ID(), Version: version, App: c.Params.App, Data: c.data(),
		Allocation: c.alloc(100), IsFinal: final}
}

// Succ is a valid successor of cur in which actor pays.
func (c *Ctx) Succ(cur *channel.State, actor int, final bool) *channel.State {
	s := cur.Clone()
	s.Version = cur.Version + 1
	s.IsFinal = final
	s.Data = c.data()
	for i := range s.Balances {
		np := len(s.Balances[i])
		if np < 2 || actor >= np || s.Balances[i][actor].Sign() <= 0 {
			continue
		}
		amt := big.NewInt(1 + c.G.R.Int63n(s.Balances[i][actor].Int64()))
		to := (actor + 1 + c.G.R.Intn(np-1)) % np
		s.Balances[i][actor] = new(big.Int).Sub(s.Balances[i][actor], amt)
		s.Balances[i][to] = new(big.Int).Add(s.Balances[i][to], amt)
	}
	return s
}

// ---------- operations ----------

type Op struct {
	Kind  string
	S     *channel.State
	Alloc *channel.Allocation
	Data  channel.Data
	Actor int
	Idx   int
	Sig   wallet.Sig
	Class string
}

func (c *Ctx) opTerm(o Op) string {
	switch o.Kind {
	case "Init":
		return hx.App("ROInit", cv.Alloc(*o.Alloc), cv.Data(o.Data))
	case "Update":
		return hx.App("ROUpdate", hx.Nat(c.T.St(o.S)), hx.N(uint64(o.Actor)))
	case "ForceUpdate":
		return hx.App("ROForceUpdate", hx.Nat(c.T.St(o.S)), hx.N(uint64(o.Actor)))
	case "CheckUpdate":
		return hx.App("ROCheckUpdate", hx.Nat(c.T.St(o.S)), hx.N(uint64(o.Actor)), c.tokPlain(o.Sig), hx.N(uint64(o.Idx)))
	case "AddSig":
		return hx.App("ROAddSig", hx.N(uint64(o.Idx)), c.tokPlain(o.Sig))
	case "SetProgressing":
		return hx.App("ROSetProgressing", hx.Nat(c.T.St(o.S)))
	case "SetProgressed":
		return hx.App("ROSetProgressed", hx.Nat(c.T.St(o.S)))
	case "Discard":
		return "RODiscard"
	default:
		return "RO" + o.Kind
	}
}

// persisterMethod names the Persister method the wrapper calls after the machine operation.
func persisterMethod(kind string) string {
	switch kind {
	case "Init", "Update", "ForceUpdate", "SetProgressing", "Discard":
		return "Staged"
	case "Sig", "AddSig":
		return "SigAdded"
	case "EnableInit", "EnableUpdate", "EnableFinal", "SetProgressed":
		return "Enabled"
	case "SetFunded", "SetRegistering", "SetRegistered", "SetWithdrawing":
		return "PhaseChanged"
	case "SetWithdrawn":
		return "ChannelRemoved"
	case "Create":
		return "ChannelCreated"
	case "Restart":
		return "RestoreChannel"
	}
	return "none"
}

// Apply runs one operation on the real persisted machine. out: "OK", "OKSig", "ERR", "PANIC".
func (c *Ctx) Apply(o Op) (out string, sig wallet.Sig, errText string) {
	defer func() {
		if r := recover(); r != nil {
			out, errText = "PANIC", fmt.Sprint(r)
		}
	}()
	m := c.SM
	c.postRestart = false
	var err error
	switch o.Kind {
	case "Init":
		err = m.Init(bg, *o.Alloc, o.Data)
	case "Update":
		err = m.Update(bg, o.S, channel.Index(o.Actor))
	case "ForceUpdate":
		err = m.ForceUpdate(bg, o.S, channel.Index(o.Actor))
	case "CheckUpdate":
		err = m.CheckUpdate(o.S, channel.Index(o.Actor), o.Sig, channel.Index(o.Idx))
	case "Sig":
		staged := m.StagingState()
		sig, err = m.Sig(bg)
		if err == nil {
			c.regOwn(sig, staged)
			return "OKSig", sig, ""
		}
	case "AddSig":
		err = m.AddSig(bg, channel.Index(o.Idx), o.Sig)
	case "EnableInit":
		err = m.EnableInit(bg)
	case "EnableUpdate":
		err = m.EnableUpdate(bg)
	case "EnableFinal":
		err = m.EnableFinal(bg)
	case "Discard":
		err = m.DiscardUpdate(bg)
	case "SetFunded":
		err = m.SetFunded(bg)
	case "SetRegistering":
		err = m.SetRegistering(bg)
	case "SetRegistered":
		err = m.SetRegistered(bg)
	case "SetProgressing":
		err = m.SetProgressing(bg, o.S)
	case "SetProgressed":
		err = m.SetProgressed(bg, &channel.ProgressedEvent{State: o.S})
	case "SetWithdrawing":
		err = m.SetWithdrawing(bg)
	case "SetWithdrawn":
		err = m.SetWithdrawn(bg)
	default:
		panic("unknown op " + o.Kind)
	}
	if err != nil {
		return "ERR", nil, err.Error()
	}
	return "OK", nil, ""
}

func (c *Ctx) outTerm(out string, sig wallet.Sig) string {
	if out == "OKSig" {
		return "(ROKSig " + c.tokPlain(sig) + ")"
	}
	return "R" + out
}

// ---------- snapshots ----------

// Snap is everything the property says a restore must give back.
type Snap struct {
	Idx     channel.Index
	Params  []byte
	Phase   channel.Phase
	Staging channel.Transaction
	Current channel.Transaction
	Peers   [][]byte
	Parent  *channel.ID
}

func encParams(p *channel.Params) []byte {
	var b bytes.Buffer
	if err := p.Encode(&b); err != nil {
		return []byte("<unencodable>")
	}
	return b.Bytes()
}

// Live is the snapshot of the live machine together with the peers and parent it was created with.
func (c *Ctx) Live() Snap {
	s := Snap{Idx: c.SM.Idx(), Params: encParams(c.SM.Params()), Phase: c.SM.Phase(),
		Staging: c.SM.StagingTX().Clone(), Current: c.SM.CurrentTX().Clone(), Parent: c.Parent}
	for _, p := range c.Peers {
		s.Peers = append(s.Peers, p.Enc)
	}
	return s
}

func restoredSnap(r *persistence.Channel) Snap {
	s := Snap{Idx: r.IdxV, Params: encParams(r.ParamsV), Phase: r.PhaseV, Staging: r.StagingTXV, Current: r.CurrentTXV, Parent: r.Parent}
	for _, p := range r.PeersV {
		s.Peers = append(s.Peers, encPeer(p))
	}
	return s
}

func stateEq(a, b *channel.State) bool {
	if (a == nil) != (b == nil) {
		return false
	}
	if a == nil {
		return true
	}
	var x, y bytes.Buffer
	ex, ey := a.Encode(&x), b.Encode(&y)
	if (ex == nil) != (ey == nil) || !bytes.Equal(x.Bytes(), y.Bytes()) {
		return false
	}
	return ex == nil || cv.State(a) == cv.State(b)
}

// sigsEq: slot by slot; a missing slice is n empty slots ("exactly the signatures collected").
func sigsEq(a, b []wallet.Sig, n int) bool {
	at := func(s []wallet.Sig, i int) wallet.Sig {
		if i < len(s) {
			return s[i]
		}
		return nil
	}
	m := n
	if len(a) > m {
		m = len(a)
	}
	if len(b) > m {
		m = len(b)
	}
	for i := 0; i < m; i++ {
		x, y := at(a, i), at(b, i)
		if (x == nil) != (y == nil) || !bytes.Equal(x, y) {
			return false
		}
	}
	return true
}

func snapEq(a, b Snap, n int) bool {
	if a.Idx != b.Idx || !bytes.Equal(a.Params, b.Params) || a.Phase != b.Phase {
		return false
	}
	if !stateEq(a.Staging.State, b.Staging.State) || !sigsEq(a.Staging.Sigs, b.Staging.Sigs, n) {
		return false
	}
	if !stateEq(a.Current.State, b.Current.State) {
		return false
	}
	cn := 0
	if a.Current.State != nil {
		cn = n
	}
	if !sigsEq(a.Current.Sigs, b.Current.Sigs, cn) {
		return false
	}
	if len(a.Peers) != len(b.Peers) {
		return false
	}
	for i := range a.Peers {
		if !bytes.Equal(a.Peers[i], b.Peers[i]) {
			return false
		}
	}
	if (a.Parent == nil) != (b.Parent == nil) || (a.Parent != nil && *a.Parent != *b.Parent) {
		return false
	}
	return true
}

func (s Snap) String() string {
	st := func(t channel.Transaction) string {
		if t.State == nil {
			return fmt.Sprintf("none%v", sigMask(t.Sigs))
		}
		return fmt.Sprintf("v%d/final=%v%v", t.Version, t.IsFinal, sigMask(t.Sigs))
	}
	return fmt.Sprintf("{phase %v staging %s current %s peers %d parent %v}", s.Phase, st(s.Staging), st(s.Current), len(s.Peers), s.Parent != nil)
}

func sigMask(s []wallet.Sig) string {
	var b strings.Builder
	b.WriteString("[")
	for _, x := range s {
		if x == nil {
			b.WriteString("-")
		} else {
			b.WriteString("s")
		}
	}
	b.WriteString("]")
	return b.String()
}

// staleSigs: a restored staging signature that does not verify for the restored staged state under
// the participant's key (property text: no signature of an earlier staged state with a later one).
func (c *Ctx) staleSigs(r Snap) string {
	for i, sg := range r.Staging.Sigs {
		if sg == nil {
			continue
		}
		if r.Staging.State == nil {
			return fmt.Sprintf("signature in slot %d restored without a staged state", i)
		}
		if i >= c.N {
			return fmt.Sprintf("signature in slot %d of a %d-party channel", i, c.N)
		}
		ok, err := channel.Verify(c.Accs[i].Address(), r.Staging.State, sg)
		if err != nil || !ok {
			return fmt.Sprintf("restored signature in slot %d does not verify for the restored staged state (version %d)", i, r.Staging.State.Version)
		}
	}
	return ""
}

// ---------- views (Coq terms) ----------

func (c *Ctx) txTerm(t channel.Transaction) string {
	if t.State == nil {
		return "None"
	}
	sigs := make([]string, len(t.Sigs))
	for i, s := range t.Sigs {
		sigs[i] = c.Tok(s)
	}
	return "(Some (" + hx.Nat(c.T.St(t.State)) + ", " + hx.List(sigs) + "))"
}

// metaOK: restored index, parameters, peers and parent are those the channel was created with.
func (c *Ctx) metaOK(r Snap) bool {
	if int(r.Idx) != c.Me || !bytes.Equal(r.Params, c.encP) || len(r.Peers) != len(c.Peers) {
		return false
	}
	for i := range r.Peers {
		if !bytes.Equal(r.Peers[i], c.Peers[i].Enc) {
			return false
		}
	}
	if (r.Parent == nil) != (c.Parent == nil) || (r.Parent != nil && *r.Parent != *c.Parent) {
		return false
	}
	return true
}

// viewTerm renders a restored channel as an `oview`.
func (c *Ctx) viewTerm(r Snap) string {
	stg := "None"
	if r.Staging.State != nil {
		stg = hx.Opt(true, hx.Nat(c.T.St(r.Staging.State)))
	}
	sigs := make([]string, len(r.Staging.Sigs))
	for i, s := range r.Staging.Sigs {
		sigs[i] = c.Tok(s)
	}
	return hx.App("OV", hx.N(uint64(r.Phase)), c.txTerm(r.Current), stg, hx.List(sigs), hx.Bool(c.metaOK(r)))
}
