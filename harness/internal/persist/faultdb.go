// Package persist drives the real persistence.StateMachine over keyvalue.PersistRestorer (C10, C11).
package persist

import (
	"io"
	"os"
	"path/filepath"
	"sort"

	"polycry.pt/poly-go/sortedkv"
	"polycry.pt/poly-go/sortedkv/leveldb"
	"polycry.pt/poly-go/sortedkv/memorydb"
)

// FaultDB is a sortedkv.Database that forwards every write to all underlying stores (the first one
// answers reads) and calls Hook at every write boundary: after each direct Put/Delete and after each
// Batch.Apply. At that moment the underlying stores hold exactly what a process stopped there leaves
// behind, so the hook restores from them directly (a frozen snapshot without copying).
type FaultDB struct {
	DBs        []sortedkv.Database
	Hook       func(kind string)
	Boundaries int
}

var _ sortedkv.Database = (*FaultDB)(nil)

func (f *FaultDB) boundary(kind string) {
	f.Boundaries++
	if f.Hook != nil {
		f.Hook(kind)
	}
}

func (f *FaultDB) Has(key string) (bool, error)        { return f.DBs[0].Has(key) }
func (f *FaultDB) Get(key string) (string, error)      { return f.DBs[0].Get(key) }
func (f *FaultDB) GetBytes(key string) ([]byte, error) { return f.DBs[0].GetBytes(key) }

func (f *FaultDB) Put(key, value string) error { return f.PutBytes(key, []byte(value)) }

func (f *FaultDB) PutBytes(key string, value []byte) error {
	var first error
	for _, db := range f.DBs {
		if err := db.PutBytes(key, value); err != nil && first == nil {
			first = err
		}
	}
	f.boundary("put")
	return first
}

func (f *FaultDB) Delete(key string) error {
	var first error
	for _, db := range f.DBs {
		if err := db.Delete(key); err != nil && first == nil {
			first = err
		}
	}
	f.boundary("delete")
	return first
}

func (f *FaultDB) NewIterator() sortedkv.Iterator { return f.DBs[0].NewIterator() }
func (f *FaultDB) NewIteratorWithRange(start, end string) sortedkv.Iterator {
	return f.DBs[0].NewIteratorWithRange(start, end)
}
func (f *FaultDB) NewIteratorWithPrefix(prefix string) sortedkv.Iterator {
	return f.DBs[0].NewIteratorWithPrefix(prefix)
}

// Close leaves the underlying stores open: the driver owns them.
func (f *FaultDB) Close() error { return nil }

type bop struct {
	del bool
	key string
	val []byte
}

type fbatch struct {
	f   *FaultDB
	ops []bop
}

func (f *FaultDB) NewBatch() sortedkv.Batch { return &fbatch{f: f} }

func (b *fbatch) Put(key, value string) error { return b.PutBytes(key, []byte(value)) }
func (b *fbatch) PutBytes(key string, value []byte) error {
	b.ops = append(b.ops, bop{key: key, val: append([]byte(nil), value...)})
	return nil
}
func (b *fbatch) Delete(key string) error {
	b.ops = append(b.ops, bop{del: true, key: key})
	return nil
}
func (b *fbatch) Reset() { b.ops = nil }

// Apply is one atomic write: the batch is replayed into a batch of every underlying store.
func (b *fbatch) Apply() error {
	var first error
	for _, db := range b.f.DBs {
		ib := db.NewBatch()
		for _, o := range b.ops {
			var err error
			if o.del {
				err = ib.Delete(o.key)
			} else {
				err = ib.PutBytes(o.key, o.val)
			}
			if err != nil && first == nil {
				first = err
			}
		}
		if err := ib.Apply(); err != nil && first == nil {
			first = err
		}
	}
	b.f.boundary("batch")
	return first
}

// rawKeys is the key list of a store in the store's own iteration order.
func rawKeys(db sortedkv.Database) []string {
	it := db.NewIterator()
	var ks []string
	for it.Next() {
		ks = append(ks, it.Key())
	}
	_ = it.Close()
	return ks
}

// stores opens a memorydb and a LevelDB under dir.
type stores struct {
	mem    sortedkv.Database
	ldb    *leveldb.Database
	path   string
	resets int
}

func openStores(dir string) *stores {
	if err := os.MkdirAll(filepath.Dir(dir), 0o755); err != nil {
		panic(err)
	}
	_ = os.RemoveAll(dir)
	l, err := leveldb.LoadDatabase(dir)
	if err != nil {
		panic(err)
	}
	return &stores{mem: memorydb.NewDatabase(), ldb: l, path: dir}
}

// reset empties both stores (LevelDB is opened once per run: opening costs tens of milliseconds).
func (s *stores) reset() {
	s.mem = memorydb.NewDatabase()
	s.resets++
	if s.resets%8 == 0 { // deleted keys slow LevelDB's iterators down: start from a fresh directory
		_ = s.ldb.Close()
		_ = os.RemoveAll(s.path)
		l, err := leveldb.LoadDatabase(s.path)
		if err != nil {
			panic(err)
		}
		s.ldb = l
		return
	}
	ks := rawKeys(s.ldb)
	if len(ks) == 0 {
		return
	}
	b := s.ldb.NewBatch()
	for _, k := range ks {
		_ = b.Delete(k)
	}
	if err := b.Apply(); err != nil {
		panic(err)
	}
}

func (s *stores) close() {
	_ = s.ldb.Close()
	_ = os.RemoveAll(s.path)
}

// crashCopy copies the LevelDB directory as it is on disk right now (the process is "killed" here)
// and opens the copy: what recovery from the journal yields.
func (s *stores) crashCopy(to string) (*leveldb.Database, func(), error) {
	_ = os.RemoveAll(to)
	if err := os.MkdirAll(to, 0o755); err != nil {
		return nil, nil, err
	}
	ents, err := os.ReadDir(s.path)
	if err != nil {
		return nil, nil, err
	}
	names := make([]string, 0, len(ents))
	for _, e := range ents {
		if e.Name() != "LOCK" {
			names = append(names, e.Name())
		}
	}
	sort.Strings(names)
	for _, n := range names {
		src, err := os.Open(filepath.Join(s.path, n))
		if err != nil {
			return nil, nil, err
		}
		dst, err := os.Create(filepath.Join(to, n))
		if err != nil {
			src.Close()
			return nil, nil, err
		}
		_, err = io.Copy(dst, src)
		src.Close()
		dst.Close()
		if err != nil {
			return nil, nil, err
		}
	}
	db, err := leveldb.LoadDatabase(to)
	if err != nil {
		return nil, nil, err
	}
	return db, func() { _ = db.Close(); _ = os.RemoveAll(to) }, nil
}
