// Package c06 drives two REAL go-perun clients through programs of channel updates (C06, T3 trace
// acceptance): client.New over wire.NewLocalBus(), sim wallets, a no-op funder/adjudicator/watcher, a
// recording persistence.Persister on each side (exact order of machine operations per party), a bus
// wrapper logging every update message before it is published, and an UpdateHandler that follows an
// accept/reject script.  Every run yields one linearised event log per channel; the log is rendered
// as a Coq term and replayed through the LTS of coq/Model/Update.v by coq/Run/Compare_C06.v.
// Independently, the property statement is checked on the return values of Channel.Update, the
// Enabled/SigAdded streams and the final states (the oracle below never looks at the model).
package c06

import (
	"bytes"
	"context"
	"fmt"
	"math/big"
	"math/rand"
	"os"
	"path/filepath"
	"runtime"
	"sort"
	"strings"
	"sync"
	"sync/atomic"
	"time"

	"github.com/pkg/errors"
	_ "perun.network/go-perun/backend/sim" // registers the sim backends
	simwallet "perun.network/go-perun/backend/sim/wallet"
	simwire "perun.network/go-perun/backend/sim/wire"
	"perun.network/go-perun/channel"
	"perun.network/go-perun/channel/persistence"
	"perun.network/go-perun/client"
	plog "perun.network/go-perun/log"
	"perun.network/go-perun/wallet"
	"perun.network/go-perun/watcher"
	"perun.network/go-perun/wire"
	"verif/harness/internal/cv"
	"verif/harness/internal/hx"
)

// ---------------------------------------------------------------- programs

type decision struct {
	accept bool
	delay  time.Duration
}

type pstep struct {
	cl, ch int    // proposing client, channel
	kind   string // "pay", "zero", "bad", "badlocked", "final"
	amt    int64
	pause  time.Duration // before the call
}

type worker struct {
	steps []pstep
	start time.Duration
	token int // >0: workers with the same token take strict turns (ping-pong), step by step
}

type program struct {
	id         int
	class      string
	nch        int
	apps       []string // per channel: "none" | "pay"
	opener     []int    // per channel: the client that proposes the channel (participant index 0)
	workers    []worker
	script     [][2][]decision // [channel][responding client] cyclic
	procs      int
	jitter     int
	reqTimeout time.Duration
	seed       int64
}

func genDecisions(r *rand.Rand, n int, quick bool) []decision {
	ds := make([]decision, n)
	for i := range ds {
		ds[i].accept = r.Intn(100) < 72
		switch x := r.Intn(10); {
		case x < 6:
		case x < 9:
			ds[i].delay = time.Duration(r.Intn(1500)) * time.Microsecond
		default:
			if quick {
				ds[i].delay = time.Duration(r.Intn(4)) * time.Millisecond
			} else {
				ds[i].delay = time.Duration(r.Intn(12)) * time.Millisecond
			}
		}
	}
	return ds
}

func genKind(r *rand.Rand, last bool) (string, int64) {
	switch x := r.Intn(100); {
	case x < 70:
		return "pay", int64(1 + r.Intn(9))
	case x < 78:
		return "zero", 0
	case x < 86:
		return "bad", 1
	case x < 91:
		return "badlocked", 1
	default:
		if last || r.Intn(3) == 0 {
			return "final", int64(r.Intn(5))
		}
		return "pay", int64(1 + r.Intn(30))
	}
}

func genProgram(r *rand.Rand, id int, tier string) *program {
	quick := tier != "thorough"
	p := &program{id: id, seed: r.Int63(), procs: []int{1, 4, 16}[id%3], jitter: r.Intn(3), reqTimeout: 3 * time.Second}
	if !quick {
		p.reqTimeout = 6 * time.Second
	}
	x := r.Intn(100)
	burst := id%40 == 13
	switch {
	case burst:
		// a long run of rejected proposals of one version on one channel, then accepted ones: whatever a
		// rejection leaves behind (receivers, buffers, locks) accumulates before the next success
		p.class = "reject-burst"
		p.nch = 1
		n := 19 + r.Intn(6)
		side := r.Intn(2)
		w := worker{}
		for i := 0; i < n+3; i++ {
			w.steps = append(w.steps, pstep{cl: side, ch: 0, kind: "pay", amt: int64(1 + r.Intn(3))})
		}
		p.workers = []worker{w}
	case x < 30:
		p.class = "seq"
		p.nch = 1 + r.Intn(3)
		n := 4 + r.Intn(7)
		w := worker{}
		for i := 0; i < n; i++ {
			k, a := genKind(r, i == n-1)
			st := pstep{cl: r.Intn(2), ch: r.Intn(p.nch), kind: k, amt: a}
			if r.Intn(4) == 0 {
				st.pause = time.Duration(r.Intn(800)) * time.Microsecond
			}
			w.steps = append(w.steps, st)
		}
		p.workers = []worker{w}
	case x < 50:
		p.class = "conc-chan"
		p.nch = 2 + r.Intn(2)
		for c := 0; c < p.nch; c++ {
			side := r.Intn(2)
			n := 2 + r.Intn(4)
			w := worker{start: time.Duration(r.Intn(300)) * time.Microsecond}
			for i := 0; i < n; i++ {
				k, a := genKind(r, i == n-1)
				w.steps = append(w.steps, pstep{cl: side, ch: c, kind: k, amt: a})
			}
			p.workers = append(p.workers, w)
		}
	case x < 65:
		p.class = "conc-side"
		p.nch = 1 + r.Intn(2)
		side := r.Intn(2)
		nw := 2 + r.Intn(2)
		for i := 0; i < nw; i++ {
			w := worker{start: time.Duration(r.Intn(200)) * time.Microsecond}
			n := 1 + r.Intn(3)
			for j := 0; j < n; j++ {
				k, a := genKind(r, false)
				w.steps = append(w.steps, pstep{cl: side, ch: r.Intn(p.nch), kind: k, amt: a})
			}
			p.workers = append(p.workers, w)
		}
	case x < 82:
		p.class = "pingpong"
		p.nch = 1 + r.Intn(3)
		for c := 0; c < p.nch; c++ {
			n := 2 + r.Intn(3)
			first := r.Intn(2)
			for side := 0; side < 2; side++ {
				w := worker{token: c + 1}
				for i := 0; i < n; i++ {
					k, a := genKind(r, false)
					w.steps = append(w.steps, pstep{cl: (first + side) % 2, ch: c, kind: k, amt: a})
				}
				p.workers = append(p.workers, w)
			}
		}
	default:
		p.class = "head-on"
		p.nch = 1 + r.Intn(2)
		p.reqTimeout = time.Duration(120+r.Intn(120)) * time.Millisecond
		for side := 0; side < 2; side++ {
			w := worker{start: time.Duration(r.Intn(1500)) * time.Microsecond}
			n := 1 + r.Intn(2)
			for j := 0; j < n; j++ {
				k, a := genKind(r, false)
				st := pstep{cl: side, ch: 0, kind: k, amt: a}
				if j > 0 {
					st.pause = time.Duration(r.Intn(2000)) * time.Microsecond
				}
				w.steps = append(w.steps, st)
			}
			p.workers = append(p.workers, w)
		}
		if p.nch == 2 {
			w := worker{}
			k, a := genKind(r, false)
			w.steps = append(w.steps, pstep{cl: r.Intn(2), ch: 1, kind: k, amt: a})
			p.workers = append(p.workers, w)
		}
	}
	p.apps = make([]string, p.nch)
	p.opener = make([]int, p.nch)
	p.script = make([][2][]decision, p.nch)
	for c := 0; c < p.nch; c++ {
		p.apps[c] = []string{"none", "pay"}[r.Intn(2)]
		p.opener[c] = r.Intn(2)
		for k := 0; k < 2; k++ {
			p.script[c][k] = genDecisions(r, 3+r.Intn(5), quick)
			if p.class == "reject-burst" {
				n := len(p.workers[0].steps)
				p.script[c][k] = make([]decision, n)
				for i := n - 3; i < n; i++ {
					p.script[c][k][i].accept = true
				}
			}
			if p.class == "head-on" {
				for i := range p.script[c][k] {
					p.script[c][k][i].delay /= 4
				}
			}
		}
	}
	return p
}

func (p *program) describe() map[string]interface{} {
	ws := []interface{}{}
	for _, w := range p.workers {
		steps := []string{}
		for _, st := range w.steps {
			steps = append(steps, fmt.Sprintf("client%d ch%d %s %d (pause %v)", st.cl, st.ch, st.kind, st.amt, st.pause))
		}
		ws = append(ws, map[string]interface{}{"start": w.start.String(), "turn_group": w.token, "steps": steps})
	}
	sc := []interface{}{}
	for c := range p.script {
		for k := 0; k < 2; k++ {
			ds := []string{}
			for _, d := range p.script[c][k] {
				ds = append(ds, fmt.Sprintf("%v/%v", d.accept, d.delay))
			}
			sc = append(sc, map[string]interface{}{"channel": c, "responder": k, "decisions(accept/delay, cyclic)": ds})
		}
	}
	return map[string]interface{}{"class": p.class, "channels": p.nch, "apps": p.apps, "opener": p.opener, "gomaxprocs": p.procs,
		"jitter": p.jitter, "request_timeout": p.reqTimeout.String(), "program_seed": p.seed, "workers": ws, "scripts": sc}
}

// ---------------------------------------------------------------- recording

const (
	kBegin = iota
	kStage
	kDiscard
	kSig
	kAddSig
	kSend
	kHandle
	kDecide
	kEnable
	kPhase
)

const (
	roleProp = 0
	roleResp = 1
)

type ctxKey struct{}
type callInfo struct {
	role, id int
}

type event struct {
	ch, party int // channel, participant index of the acting party in that channel
	kind      int
	role      int
	call      int
	st        *channel.State
	actor     int
	idx       int
	sig       []byte
	msg       int // 0 request, 1 accept, 2 reject
	ver       uint64
	accept    bool
	cur, stg  channel.Transaction
	phase     channel.Phase
}

type propCall struct {
	id, cl, ch, party int
	kind              string
	proposed          *channel.State // as staged by the library: updater result with Version+1
	curAtBegin        *channel.State
	began, staged     bool
	err               error
	class             string // ok | rejected | timeout | lock-timeout | error
}

type respSess struct {
	id, cl, ch, party int
	st                *channel.State
	actor             int
	accept            bool
	err               error
}

type chanInfo struct {
	id      channel.ID
	params  *channel.Params
	app     string
	partOf  [2]int // client -> participant index
	ch      [2]*client.Channel
	src     [2]channel.Source
	init    channel.Transaction
	decided [2]int
	poisoned int32 // a request timed out on this channel: the program stops proposing on it
}

type run struct {
	p       *program
	mu      sync.Mutex // the global log mutex
	evs     []*event
	rec     int32
	jmu     sync.Mutex
	jr      *rand.Rand
	chans   []*chanInfo
	byID    map[channel.ID]int
	calls   []*propCall
	sess    []*respSess
	cls     [2]*client.Client
	srcs    [2]map[channel.ID]channel.Source
	srcMu   sync.Mutex
	pending int32 // handler invocations in progress
	harnessErr []string
}

func (r *run) jitter() {
	if r.p.jitter == 0 {
		return
	}
	r.jmu.Lock()
	x := r.jr.Intn(16)
	r.jmu.Unlock()
	switch {
	case x < 6:
	case x < 12:
		for i := 0; i <= x-6; i++ {
			runtime.Gosched()
		}
	default:
		if r.p.jitter > 1 {
			time.Sleep(time.Duration(40*(x-11)) * time.Microsecond)
		} else {
			runtime.Gosched()
		}
	}
}

func (r *run) log(e *event) {
	r.mu.Lock()
	r.evs = append(r.evs, e)
	r.mu.Unlock()
}

func (r *run) recording() bool { return atomic.LoadInt32(&r.rec) == 1 }

// ---- recording persister

type recPR struct {
	persistence.PersistRestorer
	r  *run
	cl int
}

func (p *recPR) ChannelCreated(ctx context.Context, s channel.Source, peers []map[wallet.BackendID]wire.Address, parent *channel.ID) error {
	p.r.srcMu.Lock()
	p.r.srcs[p.cl][s.ID()] = s
	p.r.srcMu.Unlock()
	return nil
}

func (p *recPR) machineEvent(ctx context.Context, s channel.Source, kind int, idx channel.Index) {
	if !p.r.recording() {
		return
	}
	ci, ok := p.r.byID[s.ID()]
	if !ok {
		return
	}
	p.r.jitter()
	e := &event{ch: ci, party: int(s.Idx()), kind: kind, role: -1, call: -1, idx: int(idx),
		cur: s.CurrentTX().Clone(), stg: s.StagingTX().Clone(), phase: s.Phase()}
	if c, ok := ctx.Value(ctxKey{}).(*callInfo); ok {
		e.role, e.call = c.role, c.id
	}
	switch kind {
	case kStage:
		if e.stg.State == nil {
			e.kind = kDiscard
		} else {
			e.st = e.stg.State
		}
	case kSig, kAddSig:
		if e.stg.State != nil && int(idx) < len(e.stg.Sigs) {
			e.sig = e.stg.Sigs[idx]
			e.st = e.stg.State
		}
		if int(idx) != e.party {
			e.kind = kAddSig
		} else {
			e.kind = kSig
		}
	case kEnable:
		e.st = e.cur.State
	}
	p.r.log(e)
	p.r.jitter()
}

func (p *recPR) Staged(ctx context.Context, s channel.Source) error {
	p.machineEvent(ctx, s, kStage, 0)
	return nil
}
func (p *recPR) SigAdded(ctx context.Context, s channel.Source, idx channel.Index) error {
	p.machineEvent(ctx, s, kSig, idx)
	return nil
}
func (p *recPR) Enabled(ctx context.Context, s channel.Source) error {
	p.machineEvent(ctx, s, kEnable, 0)
	return nil
}
func (p *recPR) PhaseChanged(ctx context.Context, s channel.Source) error {
	p.machineEvent(ctx, s, kPhase, 0)
	return nil
}
func (p *recPR) ChannelRemoved(ctx context.Context, id channel.ID) error { return nil }
func (p *recPR) Close() error                                          { return nil }

// ---- bus wrapper (one per client, same inner bus)

type recBus struct {
	inner wire.Bus
	r     *run
	cl    int
}

func (b *recBus) SubscribeClient(c wire.Consumer, a map[wallet.BackendID]wire.Address) error {
	return b.inner.SubscribeClient(c, a)
}

func (b *recBus) Publish(ctx context.Context, e *wire.Envelope) error {
	if b.r.recording() {
		var ev *event
		switch m := e.Msg.(type) {
		case *client.ChannelUpdateMsg:
			if ci, ok := b.r.byID[m.State.ID]; ok {
				ev = &event{ch: ci, kind: kSend, msg: 0, st: m.State.Clone(), actor: int(m.ActorIdx), sig: append([]byte{}, m.Sig...), ver: m.State.Version}
			}
		case *client.ChannelUpdateAccMsg:
			if ci, ok := b.r.byID[m.ChannelID]; ok {
				ev = &event{ch: ci, kind: kSend, msg: 1, ver: m.Version, sig: append([]byte{}, m.Sig...)}
			}
		case *client.ChannelUpdateRejMsg:
			if ci, ok := b.r.byID[m.ChannelID]; ok {
				ev = &event{ch: ci, kind: kSend, msg: 2, ver: m.Version}
			}
		}
		if ev != nil {
			ev.party = b.r.chans[ev.ch].partOf[b.cl]
			ev.role, ev.call = -1, -1
			b.r.jitter()
			b.r.log(ev) // the send line is written before the message can be received
		}
	}
	b.r.jitter()
	err := b.inner.Publish(ctx, e)
	b.r.jitter()
	return err
}

// ---- no-op chain components

type noFunder struct{}

func (noFunder) Fund(context.Context, channel.FundingReq) error { return nil }

type noAdj struct{}

func (noAdj) Register(context.Context, channel.AdjudicatorReq, []channel.SignedState) error {
	return errors.New("not available")
}
func (noAdj) Withdraw(context.Context, channel.AdjudicatorReq, channel.StateMap) error {
	return errors.New("not available")
}
func (noAdj) Progress(context.Context, channel.ProgressReq) error { return errors.New("not available") }
func (noAdj) Subscribe(context.Context, channel.ID) (channel.AdjudicatorSubscription, error) {
	return nil, errors.New("not available")
}

type noWatcher struct{}

func (noWatcher) StartWatchingLedgerChannel(context.Context, channel.SignedState) (watcher.StatesPub, watcher.AdjudicatorSub, error) {
	return nil, nil, errors.New("not available")
}
func (noWatcher) StartWatchingSubChannel(context.Context, channel.ID, channel.SignedState) (watcher.StatesPub, watcher.AdjudicatorSub, error) {
	return nil, nil, errors.New("not available")
}
func (noWatcher) StopWatching(context.Context, channel.ID) error { return nil }

// ---------------------------------------------------------------- executing one program

func (r *run) herr(format string, a ...interface{}) {
	r.mu.Lock()
	r.harnessErr = append(r.harnessErr, fmt.Sprintf(format, a...))
	r.mu.Unlock()
}

func classify(err error) string {
	if err == nil {
		return "ok"
	}
	var rej client.PeerRejectedError
	if errors.As(err, &rej) {
		return "rejected"
	}
	var to client.RequestTimedOutError
	if errors.As(err, &to) {
		return "timeout"
	}
	if strings.Contains(err.Error(), "locking machine mutex in time") {
		return "lock-timeout"
	}
	if errors.Is(err, context.DeadlineExceeded) || errors.Is(err, context.Canceled) || strings.Contains(err.Error(), "context deadline exceeded") {
		return "timeout"
	}
	return "error"
}

func (r *run) setup(rng *rand.Rand) error {
	p := r.p
	bus := wire.NewLocalBus()
	var addrs [2]map[wallet.BackendID]wire.Address
	var wallets [2]*simwallet.Wallet
	propRng := [2]*rand.Rand{rand.New(rand.NewSource(rng.Int63())), rand.New(rand.NewSource(rng.Int63()))}
	var prMu [2]sync.Mutex
	for k := 0; k < 2; k++ {
		addrs[k] = map[wallet.BackendID]wire.Address{0: simwire.NewRandomAddress(rng)}
		wallets[k] = simwallet.NewWallet()
		r.srcs[k] = map[channel.ID]channel.Source{}
		c, err := client.New(addrs[k], &recBus{inner: bus, r: r, cl: k}, noFunder{}, noAdj{},
			map[wallet.BackendID]wallet.Wallet{0: wallets[k]}, noWatcher{})
		if err != nil {
			return err
		}
		c.EnablePersistence(&recPR{PersistRestorer: persistence.NonPersistRestorer, r: r, cl: k})
		r.cls[k] = c
	}
	type accepted struct {
		ch  *client.Channel
		err error
	}
	accCh := [2]chan accepted{make(chan accepted, 4), make(chan accepted, 4)}
	for k := 0; k < 2; k++ {
		k := k
		ph := client.ProposalHandlerFunc(func(cp client.ChannelProposal, resp *client.ProposalResponder) {
			lp, ok := cp.(*client.LedgerChannelProposalMsg)
			if !ok {
				return
			}
			// accept from a goroutine of its own (the handler must not block the proposal routine)
			go func() {
				prMu[k].Lock()
				acc := wallets[k].NewRandomAccount(propRng[k])
				msg := lp.Accept(map[wallet.BackendID]wallet.Address{0: acc.Address()}, client.WithNonceFrom(propRng[k]))
				prMu[k].Unlock()
				ctx, cancel := context.WithTimeout(context.Background(), 60*time.Second)
				defer cancel()
				ch, err := resp.Accept(ctx, msg)
				accCh[k] <- accepted{ch, err}
			}()
		})
		uh := client.UpdateHandlerFunc(func(cur *channel.State, up client.ChannelUpdate, resp *client.UpdateResponder) {
			r.handleUpdate(k, cur, up, resp)
		})
		go r.cls[k].Handle(ph, uh)
	}
	// open the channels one after the other
	for c := 0; c < p.nch; c++ {
		o := p.opener[c]
		prMu[o].Lock()
		acc := wallets[o].NewRandomAccount(propRng[o])
		nAssets := 1 + rng.Intn(2)
		al := &channel.Allocation{}
		for i := 0; i < nAssets; i++ {
			al.Assets = append(al.Assets, (&cv.Gen{R: rng}).Asset())
			al.Backends = append(al.Backends, 0)
			al.Balances = append(al.Balances, []channel.Bal{big.NewInt(int64(20 + rng.Intn(80))), big.NewInt(int64(20 + rng.Intn(80)))})
		}
		opt := client.WithoutApp()
		if p.apps[c] == "pay" {
			opt = client.WithApp(cv.PayApp, channel.NoData())
		}
		peers := []map[wallet.BackendID]wire.Address{addrs[o], addrs[1-o]}
		prop, err := client.NewLedgerChannelProposal(uint64(1+rng.Intn(50)), map[wallet.BackendID]wallet.Address{0: acc.Address()}, al, peers,
			client.WithNonceFrom(propRng[o]), opt)
		prMu[o].Unlock()
		if err != nil {
			return err
		}
		ctx, cancel := context.WithTimeout(context.Background(), 60*time.Second)
		ch0, err := r.cls[o].ProposeChannel(ctx, prop)
		cancel()
		if err != nil {
			return errors.WithMessage(err, "opening channel")
		}
		a := <-accCh[1-o]
		if a.err != nil {
			return errors.WithMessage(a.err, "accepting channel")
		}
		ci := &chanInfo{id: ch0.ID(), params: ch0.Params(), app: p.apps[c]}
		ci.ch[o], ci.ch[1-o] = ch0, a.ch
		ci.partOf[o], ci.partOf[1-o] = int(ch0.Idx()), int(a.ch.Idx())
		r.srcMu.Lock()
		ci.src[0], ci.src[1] = r.srcs[0][ci.id], r.srcs[1][ci.id]
		r.srcMu.Unlock()
		if ci.src[0] == nil || ci.src[1] == nil || a.ch.ID() != ci.id {
			return errors.New("channel sources not recorded")
		}
		if ci.ch[0].Phase() != channel.Acting || ci.ch[1].Phase() != channel.Acting {
			return errors.New("channel not in Acting after opening")
		}
		ci.init = ci.src[0].CurrentTX().Clone()
		r.chans = append(r.chans, ci)
		r.byID[ci.id] = c
	}
	return nil
}

func (r *run) handleUpdate(k int, cur *channel.State, up client.ChannelUpdate, resp *client.UpdateResponder) {
	atomic.AddInt32(&r.pending, 1)
	defer atomic.AddInt32(&r.pending, -1)
	ci, ok := r.byID[up.State.ID]
	if !ok {
		return
	}
	ch := r.chans[ci]
	r.jitter()
	r.mu.Lock()
	s := &respSess{id: len(r.sess), cl: k, ch: ci, party: ch.partOf[k], st: up.State.Clone(), actor: int(up.ActorIdx)}
	r.sess = append(r.sess, s)
	n := ch.decided[k]
	ch.decided[k]++
	r.evs = append(r.evs, &event{ch: ci, party: s.party, kind: kHandle, role: roleResp, call: s.id, st: s.st, actor: s.actor,
		cur: channel.Transaction{State: cur.Clone()}})
	r.mu.Unlock()
	d := r.p.script[ci][k][n%len(r.p.script[ci][k])]
	if d.delay > 0 {
		time.Sleep(d.delay)
	}
	r.jitter()
	s.accept = d.accept
	r.log(&event{ch: ci, party: s.party, kind: kDecide, role: roleResp, call: s.id, accept: d.accept})
	ctx, cancel := context.WithTimeout(context.WithValue(context.Background(), ctxKey{}, &callInfo{roleResp, s.id}), 60*time.Second)
	defer cancel()
	if d.accept {
		s.err = resp.Accept(ctx)
	} else {
		s.err = resp.Reject(ctx, "scripted rejection")
	}
}

func applyKind(s *channel.State, me int, kind string, amt int64, app string) {
	peer := 1 - me
	switch kind {
	case "pay", "final":
		for i := range s.Balances {
			a := big.NewInt(amt)
			if s.Balances[i][me].Cmp(a) < 0 {
				a = new(big.Int).Set(s.Balances[i][me])
			}
			s.Balances[i][me] = new(big.Int).Sub(s.Balances[i][me], a)
			s.Balances[i][peer] = new(big.Int).Add(s.Balances[i][peer], a)
		}
		if kind == "final" {
			s.IsFinal = true
		}
	case "zero":
	case "bad":
		if app == "pay" && s.Balances[0][peer].Sign() > 0 {
			// the proposer takes money: refused by the payment app
			s.Balances[0][peer] = new(big.Int).Sub(s.Balances[0][peer], big.NewInt(1))
			s.Balances[0][me] = new(big.Int).Add(s.Balances[0][me], big.NewInt(1))
		} else {
			s.Balances[0][me] = new(big.Int).Add(s.Balances[0][me], big.NewInt(amt)) // money out of thin air
		}
	case "badlocked":
		bals := make([]channel.Bal, len(s.Assets))
		for i := range bals {
			bals[i] = big.NewInt(0)
		}
		var id channel.ID
		id[0] = 7
		s.Locked = append(s.Locked, *channel.NewSubAlloc(id, bals, nil))
	}
}

func (r *run) propose(st pstep) {
	ch := r.chans[st.ch]
	if atomic.LoadInt32(&ch.poisoned) == 1 && r.p.class != "head-on" {
		return // after a timeout only the fully-signed invariant is checked: further proposals add nothing
	}
	me := ch.partOf[st.cl]
	r.mu.Lock()
	c := &propCall{id: len(r.calls), cl: st.cl, ch: st.ch, party: me, kind: st.kind}
	r.calls = append(r.calls, c)
	r.mu.Unlock()
	ctx, cancel := context.WithTimeout(context.WithValue(context.Background(), ctxKey{}, &callInfo{roleProp, c.id}), r.p.reqTimeout)
	defer cancel()
	err := ch.ch[st.cl].Update(ctx, func(s *channel.State) {
		// runs under the machine mutex
		r.jitter()
		c.curAtBegin = s.Clone()
		applyKind(s, me, st.kind, st.amt, ch.app)
		prop := s.Clone()
		prop.Version++
		c.proposed = prop
		c.began = true
		r.log(&event{ch: st.ch, party: me, kind: kBegin, role: roleProp, call: c.id, st: prop})
		r.jitter()
	})
	c.err = err
	c.class = classify(err)
	if c.class == "timeout" || c.class == "lock-timeout" {
		atomic.StoreInt32(&ch.poisoned, 1)
	}
}

func (r *run) execute() {
	p := r.p
	atomic.StoreInt32(&r.rec, 1)
	var wg sync.WaitGroup
	startGate := make(chan struct{})
	// ping-pong groups: strict alternation, worker a step, worker b step, ...
	type turn struct {
		mu   sync.Mutex
		cond *sync.Cond
		next int
		n    int
	}
	turns := map[int]*turn{}
	memberIdx := map[int]int{}
	for wi, w := range p.workers {
		if w.token > 0 {
			t := turns[w.token]
			if t == nil {
				t = &turn{}
				t.cond = sync.NewCond(&t.mu)
				turns[w.token] = t
			}
			memberIdx[wi] = t.n
			t.n++
		}
	}
	for wi, w := range p.workers {
		wg.Add(1)
		go func(wi int, w worker) {
			defer wg.Done()
			<-startGate
			if w.start > 0 {
				time.Sleep(w.start)
			}
			for si, st := range w.steps {
				if w.token > 0 {
					t := turns[w.token]
					my := si*t.n + memberIdx[wi]
					t.mu.Lock()
					for t.next != my {
						t.cond.Wait()
					}
					t.mu.Unlock()
				}
				if st.pause > 0 {
					time.Sleep(st.pause)
				}
				r.propose(st)
				if w.token > 0 {
					t := turns[w.token]
					t.mu.Lock()
					t.next++
					t.cond.Broadcast()
					t.mu.Unlock()
				}
			}
		}(wi, w)
	}
	close(startGate)
	wg.Wait()
	r.quiesce()
}

// quiesce waits until no protocol run is in progress on any channel.
func (r *run) quiesce() {
	stable := 0
	last := -1
	for i := 0; i < 400 && stable < 2; i++ {
		for _, ci := range r.chans {
			ci.ch[0].Phase() // takes and releases the machine mutex
			ci.ch[1].Phase()
		}
		r.mu.Lock()
		n := len(r.evs)
		r.mu.Unlock()
		if n == last && atomic.LoadInt32(&r.pending) == 0 {
			stable++
		} else {
			stable = 0
		}
		last = n
		if stable < 2 {
			time.Sleep(3 * time.Millisecond)
		}
	}
	atomic.StoreInt32(&r.rec, 0)
}

// ---------------------------------------------------------------- oracle (property text only)

func encState(s *channel.State) string {
	var b bytes.Buffer
	if err := s.Encode(&b); err != nil {
		return "unencodable:" + cv.State(s)
	}
	return b.String()
}

func (ci *chanInfo) fullySigned(t channel.Transaction) bool {
	if t.State == nil || len(t.Sigs) != 2 {
		return false
	}
	for i := 0; i < 2; i++ {
		if t.Sigs[i] == nil {
			return false
		}
		ok, err := channel.Verify(ci.params.Parts[i][0], t.State, t.Sigs[i])
		if err != nil || !ok {
			return false
		}
	}
	return true
}

type chanVerdict struct {
	timeout bool
	fails   []hx.Failure
	results []string
}

func (r *run) oracle(c int) chanVerdict {
	ci := r.chans[c]
	var v chanVerdict
	fail := func(site, what string) {
		v.fails = append(v.fails, hx.Failure{Site: site, InputClass: r.p.class, What: what})
	}
	var evs []*event
	for _, e := range r.evs {
		if e.ch == c {
			evs = append(evs, e)
		}
	}
	// A request timed out on this channel: from the first such give-up on, the property only claims the
	// fully-signed invariant.  What completed before it is indistinguishable from a run without
	// timeouts and is checked in full.
	cut := len(evs)
	for i, e := range evs {
		if e.kind == kDiscard && e.role == roleProp && r.calls[e.call].class == "timeout" && i < cut {
			cut = i
		}
	}
	for _, pc := range r.calls {
		if pc.ch == c && (pc.class == "timeout" || pc.class == "lock-timeout") {
			v.timeout = true
		}
	}
	for _, s := range r.sess {
		if s.ch == c && s.err != nil && classify(s.err) == "timeout" {
			v.timeout = true
		}
	}
	pos := func(call, role int, kinds ...int) int {
		for i, e := range evs {
			if e.call == call && e.role == role {
				for _, k := range kinds {
					if e.kind == k {
						return i
					}
				}
			}
		}
		return -1
	}
	// at every moment the current transaction of each party is fully signed (all runs)
	for _, e := range evs {
		switch e.kind {
		case kStage, kDiscard, kSig, kAddSig, kEnable, kPhase:
			if !ci.fullySigned(e.cur) {
				fail("client.Channel/current-transaction", fmt.Sprintf("current transaction of participant %d is not signed by both parties over the current state (version %d)", e.party, verOf(e.cur)))
			}
		}
	}
	for k := 0; k < 2; k++ {
		if !ci.fullySigned(ci.src[k].CurrentTX()) {
			fail("client.Channel/current-transaction", fmt.Sprintf("final current transaction of client %d is not fully signed", k))
		}
	}
	// ---- what completed before the first request timeout
	enabledBy := func(call, role int) *event {
		for _, e := range evs {
			if e.kind == kEnable && e.call == call && e.role == role {
				return e
			}
		}
		return nil
	}
	for _, pc := range r.calls {
		if pc.ch != c {
			continue
		}
		v.results = append(v.results, pc.kind+":"+pc.class)
		done := pos(pc.id, roleProp, kEnable, kDiscard)
		if done < 0 {
			done = pos(pc.id, roleProp, kBegin)
		}
		if done < 0 || done >= cut {
			continue
		}
		switch pc.class {
		case "ok":
			e := enabledBy(pc.id, roleProp)
			if e == nil || pc.proposed == nil || encState(e.st) != encState(pc.proposed) || !ci.fullySigned(e.cur) {
				fail("client.Channel.Update/success", "Update returned nil but the proposer's current state is not the proposed state with both signatures")
				break
			}
			found := false
			for _, f := range evs {
				if f.kind == kEnable && f.party == 1-pc.party && encState(f.st) == encState(pc.proposed) && ci.fullySigned(f.cur) {
					found = true
				}
			}
			if !found {
				fail("client.Channel.Update/success", "Update returned nil but the peer's current state never became the proposed state")
			}
		case "rejected", "error":
			if pc.class == "error" && !(pc.kind == "bad" || pc.kind == "badlocked" || (pc.curAtBegin != nil && pc.curAtBegin.IsFinal)) {
				fail("client.Channel.Update/error", "Update of a valid proposal on a channel without timeouts returned an unexpected error: "+pc.err.Error())
			}
			if enabledBy(pc.id, roleProp) != nil {
				fail("client.Channel.Update/rejection", "Update returned an error but the proposer enabled a new state")
			}
			for _, e := range evs {
				if e.call == pc.id && e.role == roleProp && e.kind == kDiscard {
					if pc.curAtBegin == nil || encState(e.cur.State) != encState(pc.curAtBegin) || e.phase != channel.Acting {
						fail("client.Channel.Update/rejection", "after a rejected update the proposer's current state changed or it is not back in Acting")
					}
				}
			}
			if pc.class == "rejected" {
				// the peer's handling of this request changed nothing on its side
				ok := false
				for _, s := range r.sess {
					if s.ch == c && s.party == 1-pc.party && !s.accept && pc.proposed != nil && encState(s.st) == encState(pc.proposed) {
						ok = true
						for _, e := range evs {
							if e.call == s.id && e.role == roleResp && (e.kind == kStage || e.kind == kSig || e.kind == kAddSig || e.kind == kEnable || e.kind == kDiscard) {
								fail("client.Channel.handleUpdateReq/rejection", "the peer rejected the update but operated on its machine")
							}
						}
					}
				}
				if !ok {
					fail("client.Channel.Update/rejection", "Update returned a rejection that the peer's handler never issued")
				}
			}
		}
	}
	// versions differ by at most one; one fully signed state per version
	ver := [2]uint64{ci.init.State.Version, ci.init.State.Version}
	full := map[uint64]string{ci.init.State.Version: encState(ci.init.State)}
	for _, e := range evs[:cut] {
		if e.kind == kEnable {
			ver[e.party] = e.st.Version
			d := int64(ver[0]) - int64(ver[1])
			if d > 1 || d < -1 {
				fail("client.Channel/versions", fmt.Sprintf("versions of the two parties differ by more than one: %d vs %d", ver[0], ver[1]))
			}
		}
		for _, t := range []channel.Transaction{e.stg, e.cur} {
			if (e.kind == kSig || e.kind == kAddSig || e.kind == kEnable) && t.State != nil && ci.fullySigned(t) {
				enc := encState(t.State)
				if old, ok := full[t.State.Version]; ok && old != enc {
					fail("client.Channel/agreement", fmt.Sprintf("two different states of version %d both obtained both signatures", t.State.Version))
				}
				full[t.State.Version] = enc
			}
		}
	}
	if v.timeout {
		return v
	}
	// quiescence: same state, both ready
	s0, s1 := ci.ch[0].State(), ci.ch[1].State()
	p0, p1 := ci.ch[0].Phase(), ci.ch[1].Phase()
	if encState(s0) != encState(s1) {
		fail("client.Channel/quiescent-state", fmt.Sprintf("at quiescence the two parties hold different states (versions %d / %d)", s0.Version, s1.Version))
	}
	if p0 != p1 || !(p0 == channel.Acting || p0 == channel.Final) || (p0 == channel.Final) != s0.IsFinal {
		fail("client.Channel/quiescent-phase", fmt.Sprintf("at quiescence the phases are %v / %v (final=%v)", p0, p1, s0.IsFinal))
	}
	for k := 0; k < 2; k++ {
		if ci.src[k].StagingTX().State != nil {
			fail("client.Channel/quiescent-phase", "a staged state is left over at quiescence")
		}
	}
	return v
}

func verOf(t channel.Transaction) int64 {
	if t.State == nil {
		return -1
	}
	return int64(t.State.Version)
}

// ---------------------------------------------------------------- rendering (compact syntax of Run/Compare_C06.v)

type table struct {
	chs   []string
	chIdx map[channel.ID]int
	sts   []string
	stIdx map[string]int
}

func newTable() *table { return &table{stIdx: map[string]int{}, chIdx: map[channel.ID]int{}} }

func (t *table) Ch(ci *chanInfo) int {
	if i, ok := t.chIdx[ci.id]; ok {
		return i
	}
	st := ci.init.State
	app, kind := "None", "None"
	if !channel.IsNoApp(ci.params.App) {
		b, err := ci.params.App.Def().MarshalBinary()
		if err != nil {
			panic(err)
		}
		app = fmt.Sprintf("(Some \"%x\")", b)
		if bytes.Equal(b, payDefBytes()) {
			app = "(Some payd)"
		}
		kind = "(Some KPay)"
	}
	backs := make([]string, len(st.Backends))
	for i, b := range st.Backends {
		backs[i] = fmt.Sprint(int(b))
	}
	assets := make([]string, len(st.Assets))
	for i, a := range st.Assets {
		assets[i] = fmt.Sprintf("\"%016x\"", cv.AssetID(a))
	}
	t.chIdx[ci.id] = len(t.chs)
	t.chs = append(t.chs, fmt.Sprintf("(mkCh \"%x\" %s %s [%s] [%s])", ci.id[:], app, kind, strings.Join(backs, ";"), strings.Join(assets, ";")))
	return len(t.chs) - 1
}

func payDefBytes() []byte {
	b, err := cv.PayApp.Def().MarshalBinary()
	if err != nil {
		panic(err)
	}
	return b
}

func zT(z *big.Int) string {
	if z.Sign() >= 0 && z.BitLen() < 60 {
		return z.String()
	}
	return hx.Z(z)
}

// St interns a state of channel ci (compact form: relative to the channel description).
func (t *table) St(ci *chanInfo, s *channel.State) int {
	rows := make([]string, len(s.Balances))
	for i, r := range s.Balances {
		cells := make([]string, len(r))
		for j, b := range r {
			cells[j] = zT(b)
		}
		rows[i] = "[" + strings.Join(cells, ";") + "]"
	}
	k := fmt.Sprintf("(cs %d %d [%s] %s %s)", t.Ch(ci), s.Version, strings.Join(rows, ";"), hx.ListOf(s.Locked, cv.SubAlloc), hx.Bool(s.IsFinal))
	// everything the compact form leaves out must be what the channel description says
	init := ci.init.State
	same := s.ID == ci.id && channel.AppShouldEqual(ci.params.App, s.App) == nil && channel.IsNoData(s.Data) && len(s.Assets) == len(init.Assets) && len(s.Backends) == len(init.Backends)
	for i := 0; same && i < len(s.Assets); i++ {
		same = s.Assets[i].Equal(init.Assets[i]) && s.Backends[i] == init.Backends[i]
	}
	if !same {
		k = "(* state outside the channel description *) " + k + "!"
	}
	if i, ok := t.stIdx[k]; ok {
		return i
	}
	t.stIdx[k] = len(t.sts)
	t.sts = append(t.sts, k)
	return len(t.sts) - 1
}

func pidT(i int) string {
	if i == 0 {
		return "pA"
	}
	return "pB"
}
func roleT(r int) string {
	if r == roleProp {
		return "rP"
	}
	return "rR"
}

type sigTok struct{ k, s int }

// renderChannel renders the log of channel c as a kcase term.
func (r *run) renderChannel(c int, t *table) (term string, nEv int, problems []string) {
	ci := r.chans[c]
	sigs := map[string]sigTok{}
	St := func(s *channel.State) int { return t.St(ci, s) }
	reg := func(sig []byte, signer int, s *channel.State) {
		if sig != nil && s != nil {
			if _, ok := sigs[string(sig)]; !ok {
				sigs[string(sig)] = sigTok{signer + 1, St(s)}
			}
		}
	}
	tok := func(sig []byte) string {
		if x, ok := sigs[string(sig)]; ok {
			return fmt.Sprintf("%d %d", x.k, x.s)
		}
		return "0 0"
	}
	for i := 0; i < 2; i++ {
		if ok, err := channel.Verify(ci.params.Parts[i][0], ci.init.State, ci.init.Sigs[i]); ok && err == nil {
			reg(ci.init.Sigs[i], i, ci.init.State)
		}
	}
	txT := func(x channel.Transaction) string {
		if x.State == nil {
			return "None"
		}
		if len(x.Sigs) == 2 && x.Sigs[0] != nil && x.Sigs[1] != nil {
			return fmt.Sprintf("(t2 %d %s %s)", St(x.State), tok(x.Sigs[0]), tok(x.Sigs[1]))
		}
		ss := make([]string, len(x.Sigs))
		for i, s := range x.Sigs {
			if s == nil {
				ss[i] = "None"
			} else {
				ss[i] = "(Some (tk " + tok(s) + "))"
			}
		}
		return fmt.Sprintf("(t1 %d %s)", St(x.State), hx.List(ss))
	}
	var evT, resT []string
	resOf := func(cl string) string {
		switch cl {
		case "ok":
			return "oS"
		case "rejected":
			return "oR"
		}
		return "oE"
	}
	add := func(format string, a ...interface{}) { evT = append(evT, fmt.Sprintf(format, a...)) }
	for _, e := range r.evs {
		if e.ch != c {
			continue
		}
		p := pidT(e.party)
		switch e.kind {
		case kBegin:
			pc := r.calls[e.call]
			if !pc.staged {
				add("eBad %s %d", p, St(e.st))
				resT = append(resT, fmt.Sprintf("rs %s %d oE", p, St(e.st)))
				if pc.class != "error" {
					problems = append(problems, "call without staging returned "+pc.class)
				}
			}
		case kStage:
			actor := e.party
			if e.role == roleResp {
				actor = r.sess[e.call].actor
			} else if e.role != roleProp {
				problems = append(problems, "machine event without call context")
			}
			add("eSt %s %s %d %d", p, roleT(e.role), St(e.st), actor)
		case kDiscard:
			cause := "CErr"
			if e.role == roleProp {
				pc := r.calls[e.call]
				switch pc.class {
				case "rejected":
					cause = "CRej"
				case "timeout":
					cause = "CTimeout"
				}
				resT = append(resT, fmt.Sprintf("rs %s %d %s", p, St(pc.proposed), resOf(pc.class)))
			}
			add("eDi %s %s %s", p, roleT(e.role), cause)
		case kSig:
			reg(e.sig, e.party, e.st)
			add("eSig %s %s %s", p, roleT(e.role), tok(e.sig))
		case kAddSig:
			add("eAdd %s %s %d %s", p, roleT(e.role), e.idx, tok(e.sig))
		case kSend:
			switch e.msg {
			case 0:
				add("eReq %s %d %d %s", p, St(e.st), e.actor, tok(e.sig))
			case 1:
				add("eAcc %s %d %s", p, e.ver, tok(e.sig))
			default:
				add("eRej %s %d", p, e.ver)
			}
		case kHandle:
			add("eH %s %d %d", p, St(e.st), e.actor)
		case kDecide:
			add("eD %s %s", p, hx.Bool(e.accept))
		case kEnable:
			add("eEn %s %s %d", p, roleT(e.role), St(e.st))
			if e.role == roleProp {
				resT = append(resT, fmt.Sprintf("rs %s %d %s", p, St(e.st), resOf(r.calls[e.call].class)))
			}
		case kPhase:
			problems = append(problems, "unexpected PhaseChanged during updates")
		}
	}
	snapT := func(k int) string {
		s := ci.src[k]
		return fmt.Sprintf("(sn %d %s %s)", int(s.Phase()), txT(s.StagingTX()), txT(s.CurrentTX()))
	}
	// snapshots in participant order
	var byPart [2]int
	byPart[ci.partOf[0]] = 0
	byPart[ci.partOf[1]] = 1
	term = fmt.Sprintf("(mkK %d %s\n [%s]\n %s %s [%s])", t.Ch(ci), txT(ci.init), strings.Join(evT, "\n  ; "), snapT(byPart[0]), snapT(byPart[1]), strings.Join(resT, "; "))
	for _, s := range t.sts {
		if strings.HasSuffix(s, "!") {
			problems = append(problems, "a state differs from its channel in id, app, data or assets")
			break
		}
	}
	return term, len(evT), problems
}

// ---------------------------------------------------------------- case files

type fileWriter struct {
	dir     string
	perFile int
	t       *table
	cases   []string
	nfiles  int
	total   int
}

func (w *fileWriter) flush() {
	if len(w.cases) == 0 {
		return
	}
	var sb strings.Builder
	sb.WriteString("From V Require Import Run.Compare_C06.\nOpen Scope string_scope.\nOpen Scope list_scope.\nOpen Scope Z_scope.\n")
	fmt.Fprintf(&sb, "Definition payd := \"%x\".\n", payDefBytes())
	fmt.Fprintf(&sb, "Definition chs := [\n%s\n].\n", strings.Join(w.t.chs, ";\n"))
	fmt.Fprintf(&sb, "Definition sts : list cst := [\n%s\n].\n", strings.Join(w.t.sts, ";\n"))
	fmt.Fprintf(&sb, "Definition cases := [\n%s\n].\n", strings.Join(w.cases, ";\n"))
	fmt.Fprintf(&sb, "Definition M := Eval vm_compute in mismatches chs sts %d%%nat cases.\nPrint M.\n", w.total)
	name := filepath.Join(w.dir, fmt.Sprintf("cases_%03d.v", w.nfiles))
	if err := os.WriteFile(name, []byte(sb.String()), 0o644); err != nil {
		panic(err)
	}
	w.nfiles++
	w.total += len(w.cases)
	w.cases = nil
	w.t = newTable()
}

// ---------------------------------------------------------------- driver

type progOut struct {
	p        *program
	r        *run
	setupErr error
}

func runProgram(p *program) *progOut {
	r := &run{p: p, byID: map[channel.ID]int{}, jr: rand.New(rand.NewSource(p.seed))}
	rng := rand.New(rand.NewSource(p.seed ^ 0x5bd1e995))
	out := &progOut{p: p, r: r}
	if err := r.setup(rng); err != nil {
		out.setupErr = err
		return out
	}
	r.execute()
	// mark staged calls
	for _, e := range r.evs {
		if e.kind == kStage && e.role == roleProp && e.call >= 0 {
			r.calls[e.call].staged = true
		}
	}
	return out
}

func (o *progOut) close() {
	for k := 0; k < 2; k++ {
		if o.r.cls[k] != nil {
			o.r.cls[k].Close()
		}
	}
}

func Run(seed int64, tier, out string) {
	hx.Seed(seed)
	plog.Set(nil) // the clients' log output is not part of the observation
	res := hx.NewResult("C06", seed, tier)
	nProg, perFile, par := 126, 17, 10
	if tier == "thorough" {
		nProg, perFile, par = 1500, 60, 12
	}
	res.PerFile = perFile
	res.Rule = "programs of update proposals run by two real clients over a local bus (classes: seq = one after the other from either side on 1-3 channels; " +
		"conc-chan = one proposing side per channel, channels concurrently; conc-side = several goroutines of one side on the same channel; pingpong = both sides alternating without pause; " +
		"head-on = both sides concurrently on the same channel with short request timeouts), accept/reject scripts with handler delays, GOMAXPROCS 1/4/16, seeded Gosched/sleep jitter in every callback; " +
		"one case per (program, channel): the linearised event log; distinct = distinct (class, app, sequence of call kinds and results) of timeout-free channels"
	gen := rand.New(rand.NewSource(hx.Rng.Int63()))
	progs := make([]*program, nProg)
	for i := range progs {
		progs[i] = genProgram(gen, i, tier)
	}
	outs := make([]*progOut, nProg)
	t0 := time.Now()
	hx.Inflight(out, "client.Channel.Update", "update programs of two clients", fmt.Sprintf("seed %d, %d programs (see the rule)", seed, nProg))
	prev := runtime.GOMAXPROCS(0)
	for _, procs := range []int{1, 4, 16} {
		runtime.GOMAXPROCS(procs)
		sem := make(chan struct{}, par)
		var wg sync.WaitGroup
		for i, p := range progs {
			if p.procs != procs {
				continue
			}
			wg.Add(1)
			sem <- struct{}{}
			go func(i int, p *program) {
				defer wg.Done()
				defer func() { <-sem }()
				outs[i] = runProgram(p)
			}(i, p)
		}
		wg.Wait()
		if os.Getenv("C06_TIMING") != "" {
			fmt.Fprintf(os.Stderr, "batch procs=%d done at %v\n", procs, time.Since(t0))
		}
	}
	runtime.GOMAXPROCS(prev)
	hx.InflightDone(out)

	w := &fileWriter{dir: out, perFile: perFile, t: newTable()}
	nTimeoutCh, nFreeCh, nTimeoutRuns := 0, 0, 0
	callStats := map[string]int{}
	for i, o := range outs {
		p := progs[i]
		if o.setupErr != nil {
			res.Warnings = append(res.Warnings, fmt.Sprintf("program %d: set-up failed: %v", i, o.setupErr))
			res.Fail(hx.Failure{Site: "harness/setup", InputClass: p.class, What: "channel set-up failed: " + o.setupErr.Error(), Case: -1,
				Replay: map[string]interface{}{"program": i}})
			o.close()
			continue
		}
		r := o.r
		runTimeout := false
		for c := range r.chans {
			v := r.oracle(c)
			term, nEv, problems := r.renderChannel(c, w.t)
			idx := w.total + len(w.cases)
			w.cases = append(w.cases, term)
			outcome := "timeout-free"
			if v.timeout {
				outcome = "with-timeout"
				nTimeoutCh++
				runTimeout = true
			} else {
				nFreeCh++
			}
			label := fmt.Sprintf("%s/prog%d/ch%d/%s/procs%d/%s", p.class, i, c, r.chans[c].app, p.procs, outcome)
			res.CaseIndex = append(res.CaseIndex, label)
			sort.Strings(v.results)
			key := fmt.Sprintf("%s/%s/%v/%s", p.class, r.chans[c].app, v.results, outcome)
			res.Count(p.class, outcome, key, nEv == 0 || v.timeout)
			if len(res.Samples) < 3 && nEv > 8 && !v.timeout {
				res.Sample(map[string]interface{}{"class": p.class, "program": i, "channel": c, "events": nEv, "case": term})
			}
			for _, pr := range problems {
				res.Fail(hx.Failure{Site: "harness/render", InputClass: p.class, What: pr, Case: idx, Replay: map[string]interface{}{"program": i, "channel": c}})
			}
			for _, f := range v.fails {
				f.Case = idx
				f.Replay = map[string]interface{}{"program": i, "channel": c, "seed": seed, "program_description": p.describe(), "observed_log": term}
				res.Fail(f)
			}
			if len(w.cases) >= w.perFile {
				w.flush()
			}
		}
		for _, pc := range r.calls {
			callStats[pc.class]++
		}
		for _, e := range r.harnessErr {
			res.Warnings = append(res.Warnings, e)
		}
		if runTimeout {
			nTimeoutRuns++
		}
		o.close()
	}
	w.flush()
	res.Outcomes["channels/timeout-free"] = nFreeCh
	res.Outcomes["channels/with-timeout"] = nTimeoutCh
	res.Outcomes["runs/total"] = nProg
	res.Outcomes["runs/with-timeout"] = nTimeoutRuns
	for k, v := range callStats {
		res.Outcomes["update-calls/"+k] = v
	}
	res.Write(out)
}
