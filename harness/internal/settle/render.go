package settle

import (
	"fmt"
	"math/big"

	"perun.network/go-perun/channel"
	"verif/harness/internal/hx"
	sl "verif/harness/internal/strictledger"
)

func (r *Run) tagNum(tag string) int {
	var kind byte
	var p int
	if tag == "adv" {
		return 20
	}
	if tag == "clock" {
		return 30
	}
	fmt.Sscanf(tag, "%c%d", &kind, &p)
	idx := r.idxOf(p)
	if kind == 'w' {
		return 10 + idx
	}
	return idx
}

// CaseTerm renders the run as a term of Run/Compare_Settle.v (scase).
func (r *Run) CaseTerm() string {
	tb := sl.NewTables()
	e := r.Env
	root := tb.P(r.Root)
	// the participants' key tokens in channel order
	var logTerms []string
	for _, en := range e.Log.E {
		switch en.Kind {
		case LCall:
			c := en.Call
			logTerms = append(logTerms, fmt.Sprintf("GCall %d %s (%s)", r.tagNum(c.Tag), tb.Op(c), tb.Out(c)))
		case LEnabled:
			logTerms = append(logTerms, fmt.Sprintf("GEnabled %d %s %s", r.idxOf(en.Party), hx.Nat(tb.P(en.Params)), hx.Nat(tb.St(en.State))))
		case LPub:
			p := e.P[en.Party]
			p.mu.Lock()
			pp := p.params[en.ID]
			p.mu.Unlock()
			logTerms = append(logTerms, fmt.Sprintf("GPub %d %s %d", r.idxOf(en.Party), hx.Nat(tb.P(pp)), en.Ver))
		case LFrozen:
			p := e.P[en.Party]
			p.mu.Lock()
			pp := p.params[en.ID]
			p.mu.Unlock()
			logTerms = append(logTerms, fmt.Sprintf("GFrozen %d %s", r.idxOf(en.Party), hx.Nat(tb.P(pp))))
		}
	}
	var snap string
	e.L.Locked(func(c *sl.Core) { snap = tb.Snapshot(c) })
	ag := r.Sc.Init
	if r.Sc.Agree != nil {
		ag = r.Sc.Agree
	}
	agree := hx.ListOf(ag, func(row []int64) string {
		return hx.ListOf(row, func(x int64) string { return hx.Z(big.NewInt(x)) })
	})
	accts := hx.List([]string{hx.N(uint64(r.partyOf(0).Acct)), hx.N(uint64(r.partyOf(1).Acct))})
	honest := 2
	if r.Sc.Honest >= 0 {
		honest = r.idxOf(r.Sc.Honest)
	}
	flags := r.flags()
	return fmt.Sprintf("(mkSCase %s %s %s %s %s %s %s %d %s %s %s)", tb.ParamsTable(), tb.StateTable(), hx.Nat(root),
		hx.ListOf(e.IDs, hx.N), agree, accts, r.InitAcc, honest, hx.List(logTerms), snap, hx.ListOf(flags[:], hx.Bool))
}

// flags: [concluded 0; withdrawn 0; concluded 1; withdrawn 1] by channel index, from the clients' own calls.
func (r *Run) flags() [4]bool {
	var f [4]bool
	for _, en := range r.Env.Log.E {
		if en.Kind != LCall || en.Call.Code != sl.OK {
			continue
		}
		c := en.Call
		if len(c.Tag) != 2 || c.Tag[0] != 'c' {
			continue
		}
		idx := r.tagNum(c.Tag)
		switch c.Kind {
		case "conclude", "concludefinal":
			f[2*idx] = true
		case "withdraw":
			f[2*idx+1] = true
		}
	}
	return f
}

// ---------- the property oracle (written from the property texts; independent of the model) ----------

type Finding struct {
	Class string
	What  string
}

func (r *Run) doublySigned(tx channel.Transaction) bool {
	if tx.State == nil || len(tx.Sigs) != len(r.Root.Parts) {
		return false
	}
	for i, part := range r.Root.Parts {
		ok := false
		for _, a := range part {
			v, err := channel.Verify(a, tx.State, tx.Sigs[i])
			ok = err == nil && v
		}
		if !ok {
			return false
		}
	}
	return true
}

// lastAgreed: the highest version of channel id that some Enabled stream shows with both signatures.
func (r *Run) lastAgreed(id channel.ID, parties []int) *channel.State {
	var best *channel.State
	for _, p := range parties {
		for _, tx := range r.Env.P[p].Txs(id) {
			if r.doublySigned(tx) && (best == nil || tx.State.Version > best.Version) {
				best = tx.State
			}
		}
	}
	return best
}

// entitlement of channel participant idx per asset in the channel tree whose root state is s: its balance
// in s plus, recursively, its entitlement in the last agreed state of every sub-channel locked in s
func (r *Run) entitlement(s *channel.State, idx int, parties []int) []*big.Int {
	return r.entitlementDepth(s, idx, parties, 0)
}

func (r *Run) entitlementDepth(s *channel.State, idx int, parties []int, depth int) []*big.Int {
	out := make([]*big.Int, len(s.Balances))
	for a := range s.Balances {
		out[a] = new(big.Int).Set(s.Balances[a][idx])
	}
	if depth > 4 {
		return out
	}
	for _, l := range s.Locked {
		sub := r.lastAgreed(l.ID, parties)
		if sub == nil {
			continue
		}
		j := idx
		for k, m := range l.IndexMap {
			if int(m) == idx {
				j = k
			}
		}
		for a, x := range r.entitlementDepth(sub, j, parties, depth+1) {
			out[a].Add(out[a], x)
		}
	}
	return out
}

// LedgerCaseTerm renders the ledger calls of the run as a case of Run/Compare_Ledger.v: the observed results
// and the final ledger state against Model/Ledger.v (used for trees deeper than the LTS of Model/Settle.v).
func (r *Run) LedgerCaseTerm() string {
	tb := sl.NewTables()
	tb.P(r.Root)
	var ops, outs []string
	for _, en := range r.Env.Log.E {
		if en.Kind == LCall {
			ops = append(ops, tb.Op(en.Call))
			outs = append(outs, tb.Out(en.Call))
		}
	}
	var snap string
	r.Env.L.Locked(func(c *sl.Core) { snap = tb.Snapshot(c) })
	return fmt.Sprintf("(mkLCase %s %s %s %s %s %s)", tb.ParamsTable(), tb.StateTable(), r.InitAcc, hx.List(ops), hx.List(outs), snap)
}

// Oracle checks the run against the texts of C03 (both honest) or C04 (one honest party).
func (r *Run) Oracle() []Finding {
	var fs []Finding
	add := func(class, f string, a ...interface{}) { fs = append(fs, Finding{class, fmt.Sprintf(f, a...)}) }
	e := r.Env
	sc := r.Sc
	for _, x := range e.Errs {
		add("harness", "%s", x)
	}
	if r.Root == nil || r.After == nil || len(e.Inconclusive) > 0 {
		return fs
	}
	ag := sc.Init
	if sc.Agree != nil {
		ag = sc.Agree
	}
	// conservation: per asset the ledger holds what it held before opening
	for a, id := range e.IDs {
		var tot *big.Int
		e.L.Locked(func(c *sl.Core) { tot = c.Total(id) })
		before := new(big.Int).Add(r.Before[a][0], r.Before[a][1])
		if tot.Cmp(before) != 0 {
			add("conservation", "asset %d: the ledger holds %v, before opening %v", a, tot, before)
		}
	}
	// funding debits exactly the agreement
	for a := range e.IDs {
		for j := 0; j < 2; j++ {
			p := r.partyOf(j).I
			d := new(big.Int).Sub(r.Before[a][p], r.Opened[a][p])
			if d.Cmp(big.NewInt(ag[a][j])) != 0 {
				add("funding", "asset %d participant %d: funding took %v, agreed %d", a, j, d, ag[a][j])
			}
		}
	}
	var holdEmpty = true
	e.L.Locked(func(c *sl.Core) {
		if f := c.FundOf(e.Root); f != nil {
			for _, row := range f.Hold {
				for _, x := range row {
					holdEmpty = holdEmpty && x.Sign() == 0
				}
			}
		}
	})
	if sc.Honest < 0 {
		// ----- C03 -----
		both := []int{0, 1}
		for _, x := range r.AfterTS {
			add("settle-after-timeout", "after a Settle attempt that timed out during an in-flight sub-channel update, an operation of two honest clients never completed: %s", x)
		}
		if len(r.AfterTS) > 0 {
			return fs
		}
		for _, x := range r.CloseErr {
			add("subchannel-close", "two honest clients could not settle a final sub-channel into its parent: %s", x)
		}
		for _, p := range both {
			if !r.Settled[p] {
				add("settle-error", "honest party %d could not settle: %s", p, r.SetErr[p])
			}
		}
		last := r.lastAgreed(e.Root, both)
		if last == nil {
			add("harness", "no agreed state")
			return fs
		}
		if r.Settled[0] && r.Settled[1] {
			for j := 0; j < 2; j++ {
				p := r.partyOf(j).I
				ent := r.entitlement(last, j, both)
				for a := range e.IDs {
					want := new(big.Int).Sub(new(big.Int).Add(r.Before[a][p], ent[a]), big.NewInt(ag[a][j]))
					if r.After[a][p].Cmp(want) != 0 {
						add("payout", "asset %d participant %d: ledger balance %v after settling, expected %v (balance %v in the last agreed state v%d)",
							a, j, r.After[a][p], want, ent[a], last.Version)
					}
				}
			}
			if !holdEmpty {
				add("holdings", "funds remain held for the channel after both settled")
			}
		}
		// every registration carries the newest state the registering party had enabled
		r.checkRegisterVersions(add, both)
	} else {
		// ----- C04 -----
		h := sc.Honest
		hj := r.idxOf(h)
		if !r.Settled[h] {
			add("settle-error", "the honest party could not settle: %s", r.SetErr[h])
		}
		newest, ok := e.P[h].newest(e.Root)
		if !ok {
			add("harness", "no agreed state")
			return fs
		}
		var concluded *channel.State
		e.L.Locked(func(c *sl.Core) {
			if d := c.DisputeOf(e.Root); d != nil && d.Phase == sl.PhConcluded {
				concluded = d.State
			}
		})
		if concluded != nil && concluded.Version < newest.State.Version {
			add("refutation", "the channel was concluded on version %d, the honest party had agreed to version %d", concluded.Version, newest.State.Version)
		}
		if r.Settled[h] {
			ent := r.entitlement(newest.State, hj, []int{h})
			for a := range e.IDs {
				want := new(big.Int).Sub(new(big.Int).Add(r.Before[a][h], ent[a]), big.NewInt(ag[a][hj]))
				if r.After[a][h].Cmp(want) < 0 {
					add("payout", "asset %d: the honest party's ledger balance is %v after settling, at least %v expected (balance %v in its newest agreed state v%d)",
						a, r.After[a][h], want, ent[a], newest.State.Version)
				}
			}
		}
		// sub-channels: the registered sub-channel states at the end are the newest ones of the honest party
		if concluded != nil {
			for _, l := range concluded.Locked {
				nt, ok := e.P[h].newest(l.ID)
				var d *sl.Dispute
				e.L.Locked(func(c *sl.Core) { d = c.DisputeOf(l.ID) })
				if ok && (d == nil || d.State.Version < nt.State.Version) {
					add("refutation-sub", "sub-channel concluded below the honest party's newest version %d", nt.State.Version)
				}
			}
		}
		r.checkRegisterVersions(add, []int{h})
	}
	return fs
}

// coversTree: every sub-allocation of s, and recursively of the sub-channel states handed over, comes with a state
func coversTree(s *channel.State, subs []sl.SignedTx, depth int) bool {
	if depth > 4 {
		return true
	}
	for _, l := range s.Locked {
		found := false
		for _, x := range subs {
			if x.State != nil && x.State.ID == l.ID {
				found = coversTree(x.State, subs, depth+1)
				break
			}
		}
		if !found {
			return false
		}
	}
	return true
}

// Registrations by honest clients never carry a state older than what that client had enabled (the client
// registers under its machine locks); a watcher's registration covers every sub-allocation of the state it
// registers. (Which published state the watcher picks is not checked per call: it reads the publications
// non-atomically; what counts is what is on the ledger when the challenge period ends.)
func (r *Run) checkRegisterVersions(add func(string, string, ...interface{}), parties []int) {
	for _, p := range parties {
		pub := map[channel.ID]uint64{}
		enabled := map[channel.ID]uint64{}
		for _, en := range r.Env.Log.E {
			switch {
			case en.Kind == LPub && en.Party == p:
				pub[en.ID] = en.Ver
			case en.Kind == LEnabled && en.Party == p:
				enabled[en.ID] = en.Ver
			case en.Kind == LCall && en.Call.Kind == "register":
				c := en.Call
				if c.Tag == fmt.Sprintf("w%d", p) {
					// every locked sub-channel comes with its state
					if !coversTree(c.Tx.State, c.Subs, 0) {
						add("register-subs", "the watcher registered %d sub-channel states for %d sub-allocations: a locked sub-channel is missing", len(c.Subs), len(c.Tx.State.Locked))
					}
				}
				if c.Tag == fmt.Sprintf("c%d", p) {
					if c.Tx.State.Version < enabled[c.Tx.State.ID] {
						add("register-version", "the client registered version %d although it had enabled version %d", c.Tx.State.Version, enabled[c.Tx.State.ID])
					}
					for _, s := range c.Subs {
						if s.State != nil && s.State.Version < enabled[s.State.ID] {
							add("register-version", "the client registered sub-channel version %d although it had enabled version %d", s.State.Version, enabled[s.State.ID])
						}
					}
					if !coversTree(c.Tx.State, c.Subs, 0) {
						add("register-subs", "the client registered %d sub-channel states for %d sub-allocations: a locked sub-channel is missing", len(c.Subs), len(c.Tx.State.Locked))
					}
				}
			}
		}
	}
}
