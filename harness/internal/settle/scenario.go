package settle

import (
	"context"
	"fmt"
	"math/big"
	"math/rand"
	"strings"
	"sync"
	"time"

	"perun.network/go-perun/channel"
	"perun.network/go-perun/client"
	"perun.network/go-perun/wallet"
	"perun.network/go-perun/wire"
	"verif/harness/internal/cv"
	sl "verif/harness/internal/strictledger"
)

// ---------- scenario programs ----------

// everything as an amount: all the payer has (amounts are clipped to the payer's balance).
const everything = int64(1) << 40

type Adv struct {
	Version int  // index into the adversary's enabled transactions of the ledger channel (0..latest-1)
	RootCur bool // target a sub-channel: the ledger channel's CURRENT state with outdated sub-channel states
	SubOld  bool // sub-channels: oldest state instead of a random earlier one
	SubBack int  // > 0: sub-channels outdated by exactly this many versions (a recent state), if there are that many
	Salt    int64
}

type Step struct {
	Kind   string  // pay, opensub, paysub, finalsub, closesub, final, tick, adv
	By     int     // acting party
	Amt    []int64 // per asset
	Accept bool
	Amt2   []int64 // opensub: amounts of participant 1 (Amt: participant 0)
	Sub    int
	Parent int // opensub: 0 = the ledger channel, k+1 = sub-channel k (a sub-channel of a sub-channel)
	N      int
	Adv    *Adv // for "adv": between steps; for "pay"/"paysub": during the update
	// TSBy >= 0 (with TS): while this sub-channel update is in flight (the peer's handler has not answered), party TSBy
	// calls Settle on the ledger channel with a short deadline; it must fail and change nothing
	TS   bool
	TSBy int
}

type Scenario struct {
	Seed     int64
	Proposer int // party that proposes the ledger channel (= participant 0 of the channel)
	NAssets  int
	Init     [][]int64 // [asset][participant of the channel]
	Agree    [][]int64 // funding agreement, nil = Init
	Wealth   [][]int64 // ledger balances before opening [asset][party]
	CD       uint64
	PayApp   bool
	Steps    []Step
	Depth2   bool  // a sub-channel has a sub-channel of its own
	Settle   []int // order in which the parties settle
	Honest   int   // C04: the honest party; -1: both honest (C03)
}

func (s *Scenario) String() string { return fmt.Sprintf("%+v", *s) }

// GenScenario draws a scenario from r. honest = -1 for C03, else C04 with an adversary.
func GenScenario(r *rand.Rand, c04 bool) *Scenario {
	s := &Scenario{Seed: r.Int63(), Proposer: r.Intn(2), NAssets: 1 + r.Intn(2), CD: uint64(2 + r.Intn(4)), PayApp: r.Intn(4) == 0, Honest: -1}
	if c04 {
		s.Honest = r.Intn(2)
	}
	for a := 0; a < s.NAssets; a++ {
		row := []int64{int64(10 + r.Intn(90)), int64(10 + r.Intn(90))}
		if r.Intn(8) == 0 {
			row[r.Intn(2)] = 0
		}
		s.Init = append(s.Init, row)
	}
	if r.Intn(4) == 0 { // funding agreement different from the initial balances, same totals
		for a := 0; a < s.NAssets; a++ {
			tot := s.Init[a][0] + s.Init[a][1]
			x := r.Int63n(tot + 1)
			s.Agree = append(s.Agree, []int64{x, tot - x})
		}
	}
	ag := s.Init
	if s.Agree != nil {
		ag = s.Agree
	}
	for a := 0; a < s.NAssets; a++ {
		// wealth is indexed by party; participant j of the channel is party (Proposer+j)%2
		row := make([]int64, 2)
		for j := 0; j < 2; j++ {
			row[(s.Proposer+j)%2] = ag[a][j] + int64(r.Intn(50))
		}
		s.Wealth = append(s.Wealth, row)
	}
	amt := func() []int64 {
		v := make([]int64, s.NAssets)
		for a := range v {
			switch k := r.Intn(8); {
			case k == 0:
				v[a] = 0
			case k == 1:
				v[a] = everything // clipped to what the payer has: its balance goes to exactly 0
			default:
				v[a] = int64(r.Intn(12))
			}
		}
		return v
	}
	// the shape of the channel tree: how many sub-channels are open concurrently under the ledger channel
	nsub := []int{0, 0, 0, 1, 1, 2, 2, 3}[r.Intn(8)]
	if s.PayApp {
		// funding a sub-channel moves both parties' funds in one update of the parent, which the payment app
		// refuses ("payer reduces participant's asset"): app channels carry no sub-channels here
		nsub = 0
	}
	pay := func() Step { return Step{Kind: "pay", By: r.Intn(2), Amt: amt(), Accept: r.Intn(5) != 0} }
	for i := r.Intn(3); i > 0; i-- {
		s.Steps = append(s.Steps, pay())
	}
	var open []int // sub-channels open at this point, in opening order
	parent := map[int]int{}
	openSub := func(k, par int) {
		// go-perun's usage: sub-channels are proposed by participant 0 of the parent ("we don't have peer index 0"
		// otherwise)
		s.Steps = append(s.Steps, Step{Kind: "opensub", By: s.Proposer, Amt: amt(), Amt2: amt(), Sub: k, Parent: par})
		open = append(open, k)
		parent[k] = par
	}
	for k := 0; k < nsub; k++ {
		_ = r.Intn(2)
		openSub(k, 0)
		if r.Intn(3) == 0 {
			s.Steps = append(s.Steps, pay())
		}
	}
	// depth 2 (not with an adversary: the local watcher watches one level only)
	if !c04 && nsub > 0 && r.Intn(4) == 0 {
		s.Depth2 = true
		openSub(nsub, 1+r.Intn(nsub))
	}
	// C04, a sub-channel in heavy use: its version overtakes, equals or stays below the parent's; the adversary
	// registers the tree with an outdated state of it while a further update of it is in flight
	busy := -1
	if c04 && nsub > 0 && r.Intn(3) == 0 {
		k := open[r.Intn(len(open))]
		for i := r.Intn(4); i > 0; i-- {
			s.Steps = append(s.Steps, pay())
		}
		for i := 1 + r.Intn(9); i > 0; i-- {
			s.Steps = append(s.Steps, Step{Kind: "paysub", By: r.Intn(2), Amt: amt(), Accept: true, Sub: k})
		}
		busy = len(s.Steps)
		s.Steps = append(s.Steps, Step{Kind: "paysub", By: r.Intn(2), Amt: amt(), Accept: true, Sub: k})
	}
	// activity in the ledger channel and in every open sub-channel, accepted and rejected updates, ticks
	for i := 1 + nsub + r.Intn(4); i > 0 && busy < 0; i-- {
		switch k := r.Intn(8); {
		case k < 4 && len(open) > 0:
			s.Steps = append(s.Steps, Step{Kind: "paysub", By: r.Intn(2), Amt: amt(), Accept: r.Intn(5) != 0, Sub: open[r.Intn(len(open))]})
		case k == 4:
			s.Steps = append(s.Steps, Step{Kind: "tick", N: 1 + r.Intn(3)})
		default:
			s.Steps = append(s.Steps, pay())
		}
	}
	if !c04 && len(open) > 0 && r.Intn(3) == 0 {
		// a Settle attempt on the ledger channel that times out while a sub-channel update is in flight; afterwards
		// everything must go on as usual
		k := open[r.Intn(len(open))]
		s.Steps = append(s.Steps, Step{Kind: "paysub", By: r.Intn(2), Amt: amt(), Accept: r.Intn(3) != 0, Sub: k, TS: true, TSBy: r.Intn(2)})
		s.Steps = append(s.Steps, pay())
		s.Steps = append(s.Steps, Step{Kind: "paysub", By: r.Intn(2), Amt: amt(), Accept: true, Sub: k})
	}
	// some sub-channels are closed cooperatively (settled into the parent), the others stay open
	closing := r.Intn(3)
	if busy >= 0 {
		closing = 0
	}
	switch closing {
	case 0: // all stay open: the settlement is a dispute over the whole tree
	case 1, 2: // close some or all of them, inner channels first (a channel with an open child cannot be closed)
		all := r.Intn(2) == 0
		for pass := 0; pass < 2; pass++ {
			cur := append([]int(nil), open...)
			closed := map[int]bool{}
			for i := len(cur) - 1; i >= 0; i-- {
				k := cur[i]
				childOpen := false
				for _, j := range cur {
					childOpen = childOpen || (parent[j] == k+1 && !closed[j])
				}
				if (all || r.Intn(2) == 0) && !childOpen {
					cs := Step{Kind: "closesub", By: r.Intn(2), Sub: k}
					if r.Intn(2) == 0 { // the final update is also a payment (by either party)
						cs.Amt = amt()
					}
					s.Steps = append(s.Steps, cs)
					closed[k] = true
					if r.Intn(3) == 0 {
						s.Steps = append(s.Steps, pay())
					}
				}
			}
			open = nil
			for _, k := range cur {
				if !closed[k] {
					open = append(open, k)
				}
			}
		}
	}
	if len(open) == 0 && r.Intn(3) == 0 {
		fs := Step{Kind: "final", By: r.Intn(2)}
		if r.Intn(2) == 0 {
			fs.Amt = amt()
		}
		s.Steps = append(s.Steps, fs)
	}
	if c04 {
		// the adversary registers an old state: between two steps or during an update
		adv := &Adv{Version: r.Intn(1 << 20), RootCur: r.Intn(2) == 0, SubOld: r.Intn(2) == 0, Salt: r.Int63()}
		pos := r.Intn(len(s.Steps) + 1)
		// with sub-channels mostly after the activity in them, so that every channel of the tree has earlier states
		lastSub := -1
		for j, st := range s.Steps {
			if st.Kind == "paysub" || st.Kind == "opensub" {
				lastSub = j
			}
		}
		if lastSub >= 0 && r.Intn(4) != 0 {
			pos = lastSub + r.Intn(len(s.Steps)-lastSub+1)
		}
		placed := false
		if busy >= 0 {
			adv.RootCur = true
			if r.Intn(4) != 0 {
				adv.SubBack = 1 + r.Intn(3) // outdated by 1..3: for a sub-channel in use still above the parent's version
			}
			s.Steps[busy].Adv = adv
			placed = true
		} else if r.Intn(2) == 0 {
			for j := pos; j < len(s.Steps); j++ {
				if s.Steps[j].Kind == "pay" || s.Steps[j].Kind == "paysub" {
					s.Steps[j].Adv = adv
					placed = true
					break
				}
			}
		}
		if !placed {
			st := append([]Step{}, s.Steps[:pos]...)
			st = append(st, Step{Kind: "adv", Adv: adv})
			s.Steps = append(st, s.Steps[pos:]...)
		}
		// after the registration the honest party may not know of the dispute yet and goes on paying; it does
		// not open or close sub-channels any more (a sub-channel is unwatched between its funding and
		// Channel.Watch: see the report, finding "late sub-channel")
		seen := false
		for j := range s.Steps {
			if s.Steps[j].Adv != nil {
				seen = true
				continue
			}
			if seen && (s.Steps[j].Kind == "opensub" || s.Steps[j].Kind == "closesub" || s.Steps[j].Kind == "final") {
				s.Steps[j] = Step{Kind: "pay", By: s.Steps[j].By, Amt: amt(), Accept: true}
			}
		}
		// more activity after the registration
		for i := r.Intn(3); i > 0; i-- {
			if r.Intn(2) == 0 {
				s.Steps = append(s.Steps, Step{Kind: "tick", N: 1})
			} else {
				s.Steps = append(s.Steps, Step{Kind: "pay", By: r.Intn(2), Amt: amt(), Accept: true})
			}
		}
		if r.Intn(2) == 0 {
			// the honest party stays away until the challenge period is over: only its watcher and its client's
			// event handling protect it
			s.Steps = append(s.Steps, Step{Kind: "tick", N: int(s.CD) + 1})
		}
		s.Settle = []int{s.Honest}
		if r.Intn(2) == 0 {
			s.Settle = append(s.Settle, 1-s.Honest)
		}
	} else {
		f := r.Intn(2)
		s.Settle = []int{f, 1 - f}
	}
	return s
}

// ---------- execution ----------

type Run struct {
	Sc       *Scenario
	Env      *Env
	Root     *channel.Params
	Before   [][]*big.Int // ledger balances [asset][party] before opening
	Opened   [][]*big.Int // after opening
	After    [][]*big.Int // at the end
	Settled  [2]bool      // Settle returned nil
	SetErr   [2]string
	Subs     []channel.ID
	Notes    []string
	AdvDone  []AdvCall
	CloseErr []string // cooperative settlements of sub-channels that failed
	TSDone   bool     // a Settle attempt with a short deadline failed during an in-flight update (as scripted)
	AfterTS  []string // operations that did not complete after that attempt
	deadline time.Duration
	InitAcc  string
}

type AdvCall struct {
	Version uint64
	Newest  uint64 // newest version enabled at the honest party when the adversary registered
	Err     string
}

func (r *Run) balances() [][]*big.Int {
	out := make([][]*big.Int, len(r.Env.IDs))
	for a, id := range r.Env.IDs {
		out[a] = []*big.Int{r.Env.L.Balance(1, id), r.Env.L.Balance(2, id)}
	}
	return out
}

func (r *Run) note(f string, a ...interface{}) { r.Notes = append(r.Notes, fmt.Sprintf(f, a...)) }

// party that is participant j of the channels
func (r *Run) partyOf(j int) *Party { return r.Env.P[(r.Sc.Proposer+j)%2] }

// channel index of a party
func (r *Run) idxOf(p int) int { return (p - r.Sc.Proposer + 2) % 2 }

func (r *Run) ctxOp() (context.Context, context.CancelFunc) {
	d := opDeadline
	if r.deadline > 0 {
		d = r.deadline
	}
	return context.WithTimeout(context.Background(), d)
}

// afterTSDeadline bounds operations after a scripted Settle attempt that timed out: if that attempt left
// something locked every later operation on the channel hangs; they are judged (class settle-after-timeout).
const afterTSDeadline = 40 * time.Second

// hung reports an error of an operation that did not complete in time.
func hung(err error) bool {
	return err != nil && (strings.Contains(err.Error(), "deadline exceeded") || strings.Contains(err.Error(), "locking machine mutex") || strings.Contains(err.Error(), "locking recursive"))
}

func (r *Run) transfer(s *channel.State, fromIdx int, amt []int64) {
	to := 1 - fromIdx
	for a := range s.Balances {
		x := big.NewInt(amt[a%len(amt)])
		if s.Balances[a][fromIdx].Cmp(x) < 0 {
			x = new(big.Int).Set(s.Balances[a][fromIdx])
		}
		s.Balances[a][fromIdx] = new(big.Int).Sub(s.Balances[a][fromIdx], x)
		s.Balances[a][to] = new(big.Int).Add(s.Balances[a][to], x)
	}
}

// Execute runs the scenario against real clients and returns the run record.
func Execute(sc *Scenario) *Run {
	rng := rand.New(rand.NewSource(sc.Seed))
	honest := [2]bool{true, true}
	if sc.Honest >= 0 {
		honest[1-sc.Honest] = false
	}
	e := NewEnv(rng, sc.NAssets, honest)
	r := &Run{Sc: sc, Env: e}
	defer e.Close()
	for a, id := range e.IDs {
		for p := 0; p < 2; p++ {
			e.L.SetBalance(sl.Account(p+1), id, big.NewInt(sc.Wealth[a][p]))
		}
	}
	r.Before = r.balances()
	e.L.Locked(func(c *sl.Core) { r.InitAcc = sl.AccountsTerm(c.Acc) })

	// open the ledger channel
	prop, resp := e.P[sc.Proposer], e.P[1-sc.Proposer]
	opts := []client.ProposalOpts{client.WithNonceFrom(rand.New(rand.NewSource(rng.Int63())))}
	if sc.PayApp {
		opts = append(opts, client.WithApp(cv.PayApp, channel.NoData()))
	} else {
		opts = append(opts, client.WithoutApp())
	}
	if sc.Agree != nil {
		opts = append(opts, client.WithFundingAgreement(e.Bals(sc.Agree)))
	}
	peers := []map[wallet.BackendID]wire.Address{wire.AddressMapfromAccountMap(prop.Ident), wire.AddressMapfromAccountMap(resp.Ident)}
	lcp, err := client.NewLedgerChannelProposal(sc.CD, map[wallet.BackendID]wallet.Address{0: prop.Part}, e.alloc(sc.Init), peers, opts...)
	if err != nil {
		e.errf("proposal: %v", err)
		return r
	}
	ctx, cancel := r.ctxOp()
	chP, err := prop.Client.ProposeChannel(ctx, lcp)
	cancel()
	if err != nil {
		e.errf("opening the ledger channel: %v", err)
		return r
	}
	chR := <-resp.newCh
	if chR == nil {
		return r
	}
	e.Root = chP.ID()
	r.Root = chP.Params()
	root := map[int]*client.Channel{prop.I: chP, resp.I: chR}
	for _, p := range e.P {
		if p.Honest {
			e.StartWatch(p, root[p.I])
		}
	}
	r.Opened = r.balances()

	subs := map[int]map[int]*client.Channel{} // sub index -> party -> channel

	update := func(ch map[int]*client.Channel, st Step, f func(*channel.State)) {
		by := e.P[st.By]
		other := e.P[1-st.By]
		other.mu.Lock()
		other.decide = func(client.ChannelUpdate) bool { return st.Accept }
		if st.Adv != nil {
			adv := st.Adv
			// the registration happens while the update is in flight; the update completes only after the
			// honest party's watcher has dealt with the adjudicator event
			other.hook = func() {
				r.adversary(adv)
				e.waitIdle(fmt.Sprintf("w%d", sc.Honest))
			}
		}
		var arrived, release chan struct{}
		if st.TS {
			// the peer's update handler is gated: it answers only after the Settle attempt below has failed
			arrived, release = make(chan struct{}), make(chan struct{})
			other.hook = func() { close(arrived); <-release }
		}
		other.mu.Unlock()
		ctx, cancel := r.ctxOp()
		if st.TS {
			go func() {
				select {
				case <-arrived:
				case <-ctx.Done():
					return
				}
				sctx, scancel := context.WithTimeout(context.Background(), 40*time.Millisecond)
				serr := root[st.TSBy].Settle(sctx, false)
				scancel()
				r.note("settle attempt by %d during the update: %v", st.TSBy, serr)
				if serr != nil {
					r.TSDone = true
					r.deadline = afterTSDeadline
				}
				close(release)
			}()
		}
		// a responder whose machine has left the updating phases answers nothing: give up soon after
		stopDog := make(chan struct{})
		go func() {
			id := ch[by.I].ID()
			for {
				select {
				case <-stopDog:
					return
				case <-time.After(2 * time.Millisecond):
				}
				other.mu.Lock()
				fr := other.frozen[id]
				other.mu.Unlock()
				if fr {
					select {
					case <-stopDog:
					case <-time.After(1500 * time.Millisecond):
						cancel()
					}
					return
				}
			}
		}()
		err := ch[by.I].Update(ctx, f)
		close(stopDog)
		cancel()
		other.mu.Lock()
		if other.hook != nil { // the update never reached the peer's handler: register now
			other.hook = nil
			other.mu.Unlock()
			r.adversary(st.Adv)
		} else {
			other.mu.Unlock()
		}
		r.note("%s by %d accept=%v: %v", st.Kind, st.By, st.Accept, err)
		if r.TSDone && hung(err) {
			r.AfterTS = append(r.AfterTS, fmt.Sprintf("%s by %d: %v", st.Kind, st.By, err))
		}
	}

steps:
	for _, st := range sc.Steps {
		if len(r.AfterTS) > 0 {
			break // the channel is stuck: judged as it is
		}
		switch st.Kind {
		case "pay":
			st := st
			update(root, st, func(s *channel.State) { r.transfer(s, r.idxOf(st.By), st.Amt) })
		case "final":
			st.Accept = true
			if len(root[st.By].State().Locked) == 0 { // never with locked funds (a sub-channel that could not be closed)
				amt, payer := st.Amt, r.idxOf(st.By)
				update(root, st, func(s *channel.State) {
					if amt != nil {
						r.transfer(s, payer, amt)
					}
					s.IsFinal = true
				})
			}
		case "tick":
			e.TickN(st.N)
		case "adv":
			r.adversary(st.Adv)
		case "opensub":
			by, other := e.P[st.By], e.P[1-st.By]
			par := root
			if st.Parent > 0 {
				var ok bool
				if par, ok = subs[st.Parent-1]; !ok {
					continue
				}
			}
			cur := par[by.I].State()
			rows := make([][]int64, sc.NAssets)
			for a := range rows {
				rows[a] = make([]int64, 2)
				for j := 0; j < 2; j++ {
					want := st.Amt
					if j == 1 && st.Amt2 != nil {
						want = st.Amt2
					}
					x := want[a%len(want)]
					if cur.Balances[a][j].Cmp(big.NewInt(x)) < 0 {
						x = cur.Balances[a][j].Int64()
					}
					rows[a][j] = x
				}
			}
			sp, err := client.NewSubChannelProposal(par[by.I].ID(), sc.CD, e.alloc(rows),
				client.WithNonceFrom(rand.New(rand.NewSource(rng.Int63()))), client.WithoutApp())
			if err != nil {
				r.note("opensub proposal: %v", err)
				continue
			}
			ctx, cancel := r.ctxOp()
			sc1, err := by.Client.ProposeChannel(ctx, sp)
			cancel()
			if err != nil {
				// the scenario program cannot be carried out as written: the run is not judged
				r.note("opensub: %v", err)
				e.notef("sub-channel %d could not be opened: %v", st.Sub, err)
				break steps
			}
			sc2 := <-other.newCh
			if sc2 == nil {
				e.notef("sub-channel %d could not be opened at the responder", st.Sub)
				break steps
			}
			subs[st.Sub] = map[int]*client.Channel{by.I: sc1, other.I: sc2}
			r.Subs = append(r.Subs, sc1.ID())
			// the local watcher watches one level of sub-channels: deeper channels are not watched
			for _, p := range e.P {
				if p.Honest && st.Parent == 0 {
					e.StartWatch(p, subs[st.Sub][p.I])
				}
			}
		case "paysub":
			if ch, ok := subs[st.Sub]; ok {
				st := st
				// the index of a party in a sub-channel is its index in the parent
				update(ch, st, func(s *channel.State) { r.transfer(s, int(ch[st.By].Idx()), st.Amt) })
			}
		case "closesub":
			ch, ok := subs[st.Sub]
			if !ok {
				continue
			}
			st.Accept = true
			// go-perun's usage: the party that proposed the sub-channel (index 0 in it) sends the final update;
			// the proposee registers the expected parent update when it accepts that final state
			payer := int(ch[st.By].Idx()) // the drawn party pays in the final update (nobody if Amt is nil)
			for _, p := range e.P {
				if ch[p.I].Idx() == 0 {
					st.By = p.I
				}
			}
			if !ch[st.By].State().IsFinal {
				amt := st.Amt
				update(ch, st, func(s *channel.State) {
					if amt != nil {
						r.transfer(s, payer, amt)
					}
					s.IsFinal = true
				})
			}
			// both sides settle the sub-channel into the parent concurrently
			var wg sync.WaitGroup
			errs := make([]error, 2)
			for _, p := range e.P {
				wg.Add(1)
				go func(p *Party) {
					defer wg.Done()
					ctx, cancel := r.ctxOp()
					defer cancel()
					errs[p.I] = ch[p.I].Settle(ctx, false)
				}(p)
			}
			wg.Wait()
			r.note("closesub %d: %v / %v", st.Sub, errs[0], errs[1])
			if errs[0] == nil && errs[1] == nil {
				delete(subs, st.Sub)
			} else {
				r.CloseErr = append(r.CloseErr, fmt.Sprintf("sub-channel %d: %v / %v", st.Sub, errs[0], errs[1]))
				if r.TSDone && (hung(errs[0]) || hung(errs[1])) {
					r.AfterTS = append(r.AfterTS, fmt.Sprintf("closesub %d: %v / %v", st.Sub, errs[0], errs[1]))
				}
			}
		}
	}
	if len(e.Inconclusive) > 0 || len(r.AfterTS) > 0 {
		r.After = r.balances()
		return r
	}
	e.WaitQuiescent()
	for k, p := range sc.Settle {
		ctx, cancel := r.ctxOp()
		err := root[p].Settle(ctx, k > 0)
		cancel()
		if err == nil {
			r.Settled[p] = true
		} else {
			r.SetErr[p] = err.Error()
			if r.TSDone && hung(err) {
				r.AfterTS = append(r.AfterTS, fmt.Sprintf("settle by %d: %v", p, err))
			}
		}
	}
	e.WaitQuiescent()
	r.After = r.balances()
	return r
}

// adversary registers an old fully signed state of the ledger channel (with old sub-channel states)
// through its own handle on the ledger.
func (r *Run) adversary(adv *Adv) {
	e := r.Env
	m := e.P[1-r.Sc.Honest]
	h := e.P[r.Sc.Honest]
	txs := m.Txs(e.Root)
	if len(txs) == 0 {
		return
	}
	// "any earlier fully signed state" of the ledger channel or of a sub-channel: per channel a version in
	// 0..latest-1; with RootCur the ledger channel's current state carries outdated sub-channel states
	rr := rand.New(rand.NewSource(adv.Salt))
	pick := func(rootIdx int) (channel.Transaction, []channel.SignedState, bool) {
		tx := txs[rootIdx]
		outdated := rootIdx < len(txs)-1
		var subs []channel.SignedState
		for _, l := range tx.State.Locked {
			st := m.Txs(l.ID)
			if len(st) == 0 {
				continue
			}
			k := 0
			if len(st) > 1 {
				outdated = true
				switch {
				case adv.SubBack > 0 && len(st)-1-adv.SubBack >= 0:
					k = len(st) - 1 - adv.SubBack
				case !adv.SubOld:
					k = rr.Intn(len(st) - 1)
				}
			}
			m.mu.Lock()
			sp := m.params[l.ID]
			m.mu.Unlock()
			subs = append(subs, channel.SignedState{Params: sp, State: st[k].State, Sigs: st[k].Sigs})
		}
		return tx, subs, outdated
	}
	old := 0
	if len(txs) > 1 {
		old = adv.Version % (len(txs) - 1)
	}
	tx, subs, outdated := pick(old)
	if adv.RootCur {
		if t2, s2, o2 := pick(len(txs) - 1); o2 {
			tx, subs, outdated = t2, s2, o2
		}
	}
	_ = outdated
	newest := uint64(0)
	if t, ok := h.newest(e.Root); ok {
		newest = t.State.Version
	}
	ctx, cancel := r.ctxOp()
	defer cancel()
	req := channel.AdjudicatorReq{Params: r.Root, Tx: tx, Idx: channel.Index(r.idxOf(m.I))}
	err := e.L.Handle(m.Acct, "adv").Register(ctx, req, subs)
	ac := AdvCall{Version: tx.State.Version, Newest: newest}
	if err != nil {
		ac.Err = err.Error()
	}
	r.AdvDone = append(r.AdvDone, ac)
}

// Describe prints a run for debugging.
func Describe(r *Run) string {
	s := fmt.Sprintf("settled=%v errs=%q harnessErrs=%q ticks=%d\n before=%v opened=%v after=%v\n", r.Settled, r.SetErr, r.Env.Errs, r.Env.Ticks, r.Before, r.Opened, r.After)
	for _, n := range r.Notes {
		s += "  note: " + n + "\n"
	}
	for _, a := range r.AdvDone {
		s += fmt.Sprintf("  adv: %+v\n", a)
	}
	for _, e := range r.Env.Log.E {
		switch e.Kind {
		case LCall:
			c := e.Call
			v := uint64(0)
			if c.Tx.State != nil {
				v = c.Tx.State.Version
			}
			s += fmt.Sprintf("  [%d] %s %s v=%d subs=%d idx=%d n=%d -> %s ev=%d\n", c.Clock, c.Tag, c.Kind, v, len(c.Subs)+len(c.SubSts), c.Idx, c.N, sl.ErrNames[c.Code], len(c.Events))
		case LEnabled:
			s += fmt.Sprintf("      p%d enabled %x v%d final=%v locked=%d\n", e.Party, e.ID[:3], e.Ver, e.State.IsFinal, len(e.State.Locked))
		case LPub:
			s += fmt.Sprintf("      p%d pub %x v%d\n", e.Party, e.ID[:3], e.Ver)
		case LFrozen:
			s += fmt.Sprintf("      p%d frozen %x\n", e.Party, e.ID[:3])
		}
	}
	return s
}
