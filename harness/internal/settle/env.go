// Package settle runs scenario programs with two REAL go-perun clients over wire.NewLocalBus(), the real
// watcher/local.Watcher and the strict ledger of internal/strictledger on a logical clock, and records
// the linearised log of ledger calls, Enabled events (recording persister), publications to the
// watcher, machine freezes and clock ticks (properties C03 and C04).
package settle

import (
	"context"
	"fmt"
	"math/big"
	"math/rand"
	"sync"
	"sync/atomic"
	"time"

	simchannel "perun.network/go-perun/backend/sim/channel"
	"perun.network/go-perun/channel"
	"perun.network/go-perun/channel/persistence"
	"perun.network/go-perun/client"
	"perun.network/go-perun/wallet"
	wtest "perun.network/go-perun/wallet/test"
	"perun.network/go-perun/watcher"
	"perun.network/go-perun/watcher/local"
	"perun.network/go-perun/wire"
	wiretest "perun.network/go-perun/wire/test"
	sl "verif/harness/internal/strictledger"
)

// ---------- log ----------

const (
	LCall = iota
	LEnabled
	LPub
	LFrozen
)

type Entry struct {
	Kind   int
	Party  int
	Call   sl.Call
	Params *channel.Params
	State  *channel.State
	Sigs   []wallet.Sig
	ID     channel.ID
	Ver    uint64
}

type Log struct {
	mu sync.Mutex
	E  []Entry
}

func (l *Log) add(e Entry) {
	l.mu.Lock()
	l.E = append(l.E, e)
	l.mu.Unlock()
}

// ---------- parties ----------

type Party struct {
	I      int
	env    *Env
	Acct   sl.Account
	Wallet wtest.Wallet
	Part   wallet.Address
	Ident  map[wallet.BackendID]wire.Account
	Client *client.Client
	Honest bool

	mu      sync.Mutex
	chans   map[channel.ID]*client.Channel
	params  map[channel.ID]*channel.Params
	txs     map[channel.ID][]channel.Transaction // enabled transactions, in order
	view    map[channel.ID]uint64
	watched map[channel.ID]bool
	frozen  map[channel.ID]bool
	newCh   chan *client.Channel
	decide  func(client.ChannelUpdate) bool
	hook    func()
}

func (p *Party) newest(id channel.ID) (channel.Transaction, bool) {
	p.mu.Lock()
	defer p.mu.Unlock()
	t := p.txs[id]
	if len(t) == 0 {
		return channel.Transaction{}, false
	}
	return t[len(t)-1], true
}

// Txs returns the enabled transactions of a channel at this party.
func (p *Party) Txs(id channel.ID) []channel.Transaction {
	p.mu.Lock()
	defer p.mu.Unlock()
	return append([]channel.Transaction(nil), p.txs[id]...)
}

// recorder is the recording persister.
type recorder struct {
	persistence.PersistRestorer
	p *Party
}

func (r recorder) ChannelCreated(_ context.Context, s channel.Source, _ []map[wallet.BackendID]wire.Address, _ *channel.ID) error {
	r.p.mu.Lock()
	r.p.params[s.ID()] = s.Params()
	r.p.mu.Unlock()
	return nil
}

func (r recorder) Enabled(_ context.Context, s channel.Source) error {
	tx := s.CurrentTX()
	if tx.State == nil {
		return nil
	}
	st := tx.State.Clone()
	sigs := append([]wallet.Sig(nil), tx.Sigs...)
	p := r.p
	p.mu.Lock()
	p.params[s.ID()] = s.Params()
	p.txs[s.ID()] = append(p.txs[s.ID()], channel.Transaction{State: st, Sigs: sigs})
	p.mu.Unlock()
	p.env.Log.add(Entry{Kind: LEnabled, Party: p.I, Params: s.Params(), State: st, Sigs: sigs, ID: s.ID(), Ver: st.Version})
	return nil
}

func (r recorder) PhaseChanged(_ context.Context, s channel.Source) error {
	if s.Phase() >= channel.Registering {
		p := r.p
		p.mu.Lock()
		was := p.frozen[s.ID()]
		p.frozen[s.ID()] = true
		p.mu.Unlock()
		if !was {
			p.env.Log.add(Entry{Kind: LFrozen, Party: p.I, ID: s.ID()})
		}
	}
	return nil
}

// watchWrap logs what reaches the real watcher.
type watchWrap struct {
	inner *local.Watcher
	p     *Party
}

type pubWrap struct {
	inner watcher.StatesPub
	p     *Party
	id    channel.ID
}

func (w *pubWrap) Publish(ctx context.Context, tx channel.Transaction) error {
	err := w.inner.Publish(ctx, tx)
	w.p.published(w.id, tx.Version)
	return err
}

func (p *Party) published(id channel.ID, v uint64) {
	p.mu.Lock()
	p.view[id] = v
	p.watched[id] = true
	p.mu.Unlock()
	p.env.Log.add(Entry{Kind: LPub, Party: p.I, ID: id, Ver: v})
}

func (w *watchWrap) StartWatchingLedgerChannel(ctx context.Context, ss channel.SignedState) (watcher.StatesPub, watcher.AdjudicatorSub, error) {
	pub, sub, err := w.inner.StartWatchingLedgerChannel(ctx, ss)
	if err != nil {
		return pub, sub, err
	}
	w.p.published(ss.State.ID, ss.State.Version)
	return &pubWrap{pub, w.p, ss.State.ID}, sub, nil
}

func (w *watchWrap) StartWatchingSubChannel(ctx context.Context, parent channel.ID, ss channel.SignedState) (watcher.StatesPub, watcher.AdjudicatorSub, error) {
	pub, sub, err := w.inner.StartWatchingSubChannel(ctx, parent, ss)
	if err != nil {
		return pub, sub, err
	}
	w.p.published(ss.State.ID, ss.State.Version)
	return &pubWrap{pub, w.p, ss.State.ID}, sub, nil
}

func (w *watchWrap) StopWatching(ctx context.Context, id channel.ID) error {
	err := w.inner.StopWatching(ctx, id)
	w.p.mu.Lock()
	w.p.watched[id] = false
	w.p.mu.Unlock()
	return err
}

type nopHandler struct{}

func (nopHandler) HandleAdjudicatorEvent(channel.AdjudicatorEvent) {}

// ---------- environment ----------

type Env struct {
	L      *sl.Ledger
	Log    *Log
	P      [2]*Party
	Assets []channel.Asset
	IDs    []uint64
	Rng    *rand.Rand
	Root   channel.ID
	errMu  sync.Mutex
	Errs   []string
	// Inconclusive: the scenario program itself could not be carried out (e.g. a channel could not be opened)
	Inconclusive []string
	stop         chan struct{}
	wg           sync.WaitGroup
	// Ticks counts the clock ticks of the driver.
	Ticks  int
	gaveUp atomic.Bool
}

func (e *Env) errf(f string, a ...interface{}) {
	e.errMu.Lock()
	e.Errs = append(e.Errs, fmt.Sprintf(f, a...))
	e.errMu.Unlock()
}

// reactionDeadline bounds (in real time) the wait for a reaction that the urgency assumption promises.
// When it passes the clock moves on and the run is judged as it is.
const reactionDeadline = 20 * time.Second

// Deadline for a single client operation in real time. It is only reached when something is stuck.
const opDeadline = 150 * time.Second

func NewEnv(rng *rand.Rand, nAssets int, honest [2]bool) *Env {
	e := &Env{L: sl.New(), Log: &Log{}, Rng: rng, stop: make(chan struct{})}
	e.L.OnCall = func(c sl.Call) { e.Log.add(Entry{Kind: LCall, Call: c}) }
	for len(e.Assets) < nAssets {
		a := &simchannel.Asset{ID: uint64(1 + rng.Intn(1000))}
		dup := false
		for _, x := range e.IDs {
			dup = dup || x == a.ID
		}
		if !dup {
			e.Assets = append(e.Assets, a)
			e.IDs = append(e.IDs, a.ID)
		}
	}
	bus := wire.NewLocalBus()
	for i := 0; i < 2; i++ {
		p := &Party{I: i, env: e, Acct: sl.Account(i + 1), Honest: honest[i],
			chans: map[channel.ID]*client.Channel{}, params: map[channel.ID]*channel.Params{}, txs: map[channel.ID][]channel.Transaction{},
			view: map[channel.ID]uint64{}, watched: map[channel.ID]bool{}, frozen: map[channel.ID]bool{}, newCh: make(chan *client.Channel, 4)}
		prng := rand.New(rand.NewSource(rng.Int63()))
		p.Wallet = wtest.NewWallet(0)
		p.Part = p.Wallet.NewRandomAccount(prng).Address()
		p.Ident = wiretest.NewRandomAccountMap(prng, 0)
		inner, err := local.NewWatcher(e.L.Handle(p.Acct, fmt.Sprintf("w%d", i)))
		if err != nil {
			panic(err)
		}
		h := e.L.Handle(p.Acct, fmt.Sprintf("c%d", i))
		cl, err := client.New(wire.AddressMapfromAccountMap(p.Ident), bus, h, h,
			map[wallet.BackendID]wallet.Wallet{0: p.Wallet}, &watchWrap{inner, p})
		if err != nil {
			panic(err)
		}
		cl.EnablePersistence(recorder{persistence.NonPersistRestorer, p})
		p.Client = cl
		e.P[i] = p
		pp := p
		cl.OnNewChannel(func(ch *client.Channel) {
			pp.mu.Lock()
			pp.chans[ch.ID()] = ch
			pp.mu.Unlock()
		})
		go cl.Handle(client.ProposalHandlerFunc(pp.handleProposal), client.UpdateHandlerFunc(pp.handleUpdate))
	}
	e.wg.Add(1)
	go e.clockDriver()
	return e
}

func (p *Party) handleProposal(prop client.ChannelProposal, r *client.ProposalResponder) {
	go func() {
		ctx, cancel := context.WithTimeout(context.Background(), opDeadline)
		defer cancel()
		nonce := client.WithNonceFrom(rand.New(rand.NewSource(int64(p.I) + 77)))
		var acc client.ChannelProposalAccept
		switch pr := prop.(type) {
		case *client.LedgerChannelProposalMsg:
			acc = pr.Accept(map[wallet.BackendID]wallet.Address{0: p.Part}, nonce)
		case *client.SubChannelProposalMsg:
			acc = pr.Accept(nonce)
		default:
			p.env.errf("party %d: unexpected proposal %T", p.I, prop)
			return
		}
		ch, err := r.Accept(ctx, acc)
		if err != nil {
			p.env.notef("party %d: accepting proposal: %v", p.I, err)
			p.newCh <- nil
			return
		}
		p.newCh <- ch
	}()
}

func (p *Party) handleUpdate(_ *channel.State, cu client.ChannelUpdate, r *client.UpdateResponder) {
	ctx, cancel := context.WithTimeout(context.Background(), opDeadline)
	defer cancel()
	p.mu.Lock()
	decide, hook := p.decide, p.hook
	p.hook = nil
	p.mu.Unlock()
	if hook != nil {
		hook()
	}
	if decide == nil || decide(cu) {
		if err := r.Accept(ctx); err != nil {
			p.env.note("party %d: accept: %v", p.I, err)
		}
	} else if err := r.Reject(ctx, "scripted rejection"); err != nil {
		p.env.note("party %d: reject: %v", p.I, err)
	}
}

// note records an event that is not an error of the harness (e.g. an update refused during a dispute).
func (e *Env) note(f string, a ...interface{}) {}

// notef records something that makes the scenario inconclusive (it is reported as a warning, not judged).
func (e *Env) notef(f string, a ...interface{}) {
	e.errMu.Lock()
	e.Inconclusive = append(e.Inconclusive, fmt.Sprintf(f, a...))
	e.errMu.Unlock()
}

// StartWatch starts Channel.Watch for a channel of a party and waits until the publisher is installed.
func (e *Env) StartWatch(p *Party, ch *client.Channel) {
	go func() { _ = ch.Watch(nopHandler{}) }()
	deadline := time.Now().Add(opDeadline)
	for !ch.VerifWatching() {
		if time.Now().After(deadline) {
			e.errf("party %d: watcher did not start", p.I)
			return
		}
		time.Sleep(200 * time.Microsecond)
	}
}

// ---------- the clock driver ----------

// Quiescent: every reaction of the honest parties that the urgency assumption covers has happened:
// their watchers have handled every adjudicator event, every enabled state has reached the watcher,
// and every machine of a registered channel that matters is frozen.
func (e *Env) Quiescent() bool {
	for _, p := range e.P {
		if !p.Honest {
			continue
		}
		if !e.L.Idle(fmt.Sprintf("w%d", p.I)) {
			return false
		}
		p.mu.Lock()
		ok := true
		var rootLocked []channel.SubAlloc
		if t := p.txs[e.Root]; len(t) > 0 {
			rootLocked = t[len(t)-1].State.Locked
		}
		for id, t := range p.txs {
			if len(t) == 0 {
				continue
			}
			if p.watched[id] && p.view[id] != t[len(t)-1].State.Version {
				ok = false
			}
			rel := id == e.Root
			for _, l := range rootLocked {
				rel = rel || l.ID == id
			}
			if rel {
				// a registered channel that matters: the machine is frozen and the newest state is registered
				var d *sl.Dispute
				e.L.Locked(func(c *sl.Core) { d = c.DisputeOf(id) })
				if d != nil && (!p.frozen[id] || (d.Phase != sl.PhConcluded && d.State.Version < t[len(t)-1].State.Version)) {
					ok = false
				}
			}
		}
		p.mu.Unlock()
		if !ok {
			return false
		}
	}
	return true
}

func (e *Env) clockDriver() {
	defer e.wg.Done()
	for {
		select {
		case <-e.stop:
			return
		default:
		}
		if e.L.Waiters() > 0 {
			e.WaitQuiescent()
			// a second look after yielding: the check and the tick are not one atomic action
			time.Sleep(100 * time.Microsecond)
			if e.L.Waiters() > 0 && e.WaitQuiescent() {
				e.L.Tick(1)
				e.Ticks++
				continue
			}
		}
		time.Sleep(200 * time.Microsecond)
	}
}

// TickN advances the clock by n single ticks, each when the system is quiescent.
func (e *Env) TickN(n int) {
	for i := 0; i < n; i++ {
		e.WaitQuiescent()
		e.L.Tick(1)
	}
}

// WaitQuiescent waits for the reactions the urgency assumption promises, at most reactionDeadline of real
// time (much less once a run has exceeded it: then the run is judged as it is). It always returns true:
// the clock goes on either way.
func (e *Env) WaitQuiescent() bool {
	d := reactionDeadline
	if e.gaveUp.Load() {
		d = 20 * time.Millisecond
	}
	deadline := time.Now().Add(d)
	for !e.Quiescent() {
		if time.Now().After(deadline) {
			e.gaveUp.Store(true)
			return true
		}
		time.Sleep(200 * time.Microsecond)
	}
	return true
}

// waitIdle waits until the subscriptions with the tag have handled everything delivered so far.
func (e *Env) waitIdle(tag string) {
	deadline := time.Now().Add(reactionDeadline)
	for !e.L.Idle(tag) && time.Now().Before(deadline) {
		time.Sleep(200 * time.Microsecond)
	}
}

func (e *Env) Close() {
	close(e.stop)
	e.wg.Wait()
	for _, p := range e.P {
		_ = p.Client.Close()
	}
}

// ---------- helpers for scenario steps ----------

func (e *Env) Bals(rows [][]int64) channel.Balances {
	b := make(channel.Balances, len(rows))
	for a := range rows {
		b[a] = make([]channel.Bal, len(rows[a]))
		for j := range rows[a] {
			b[a][j] = big.NewInt(rows[a][j])
		}
	}
	return b
}

func (e *Env) alloc(rows [][]int64) *channel.Allocation {
	return &channel.Allocation{Assets: e.Assets, Backends: make([]wallet.BackendID, len(e.Assets)), Balances: e.Bals(rows)}
}
