package settle

import (
	"fmt"
	"math/rand"
	"os"
	"sort"
	"strings"
	"sync"

	"verif/harness/internal/cv"
	"verif/harness/internal/hx"
	sl "verif/harness/internal/strictledger"
)

// RunProperty is the driver of C03 (c04=false) and C04 (c04=true): differential cases of the strict ledger
// against Model/Ledger.v, then scenario programs with real clients whose logs are written as cases of
// Run/Compare_C03.v / Compare_C04.v, with the property oracle on every run.
func RunProperty(prop string, c04 bool, seed int64, tier, out string) {
	hx.Seed(seed)
	res := hx.NewResult(prop, seed, tier)
	res.Rule = "ledger: per operation result and final state of the Go strict ledger = Model/Ledger.v; scenarios: the log of ledger calls, Enabled events, publications, freezes and ticks is accepted by the LTS of Model/Settle.v and the final ledger state agrees; oracle from the property text on ledger balances"
	nLedger, nScen := 24, 48
	if tier == "thorough" {
		nLedger, nScen = 400, 600
	}
	cnt := 0
	g := &cv.Gen{R: rand.New(rand.NewSource(hx.Rng.Int63()))}
	lw := &sl.Writer{Dir: out, Module: "Run.Compare_Ledger", Prefix: "L", PerFile: 6, Counter: &cnt}
	sl.RunDiff(g, nLedger, lw, res)
	module := "Run.Compare_C03"
	if c04 {
		module = "Run.Compare_C04"
	}
	sw := &sl.Writer{Dir: out, Module: module, Prefix: "S", PerFile: 6, Counter: &cnt}
	scs := make([]*Scenario, nScen)
	sr := rand.New(rand.NewSource(hx.Rng.Int63()))
	for i := range scs {
		scs[i] = GenScenario(rand.New(rand.NewSource(sr.Int63())), c04)
	}
	runs := make([]*Run, nScen)
	terms := make([]string, nScen)
	finds := make([][]Finding, nScen)
	var wg sync.WaitGroup
	sem := make(chan struct{}, 4)
	for i := range scs {
		wg.Add(1)
		go func(i int) {
			defer wg.Done()
			sem <- struct{}{}
			defer func() { <-sem }()
			runs[i] = Execute(scs[i])
			finds[i] = runs[i].Oracle()
			if runs[i].Root != nil && !scs[i].Depth2 && len(runs[i].Env.Inconclusive) == 0 {
				terms[i] = runs[i].CaseTerm()
			}
		}(i)
	}
	wg.Wait()
	// trees of depth 1 are replayed through the LTS; deeper trees (Model/Settle.v has one level of sub-channels)
	// are covered by the oracle and by the ledger-level correspondence of their ledger calls
	var deep []int
	report := func(i int, caseIdx int) {
		r := runs[i]
		class := classOf(r)
		for _, n := range r.Notes {
			if strings.Contains(n, "deadline exceeded") && !strings.HasPrefix(n, "settle attempt") {
				res.Warnings = append(res.Warnings, fmt.Sprintf("scenario %d: %s | %s", i, n, scs[i].String()))
			}
		}
		if os.Getenv("VERIF_DUMP") != "" {
			fmt.Printf("=== %d %s\n%s\n", i, scs[i].String(), Describe(r))
		}
		outcome := fmt.Sprintf("settled=%v%v", r.Settled[0], r.Settled[1])
		if len(r.Env.Inconclusive) > 0 {
			outcome = "not-judged"
		}
		res.Count(class, outcome, class+"/"+outcome+"/"+shape(r), false)
		if i < 3 {
			res.Sample(map[string]interface{}{"scenario": scs[i].String(), "settled": r.Settled, "notes": r.Notes, "before": fmt.Sprint(r.Before), "after": fmt.Sprint(r.After)})
		}
		for _, x := range r.Env.Inconclusive {
			res.Warnings = append(res.Warnings, fmt.Sprintf("scenario %d not judged: %s", i, x))
		}
		for _, f := range finds[i] {
			if f.Class == "harness" {
				// the harness could not do its part (it is not a statement about the code under test)
				res.Warnings = append(res.Warnings, fmt.Sprintf("scenario %d: harness: %s", i, f.What))
				continue
			}
			site := "client.Channel.Settle"
			if c04 {
				site = "watcher/local.handleRegisteredEvent+client.Channel.Settle"
			}
			if f.Class == "harness" {
				site = "harness"
			}
			res.Fail(hx.Failure{Site: site, InputClass: f.Class, What: f.What, Case: caseIdx,
				Replay: map[string]interface{}{"scenario": scs[i].String(), "notes": r.Notes, "settle_errors": r.SetErr, "adversary": r.AdvDone, "log": strings.Split(Describe(r), "\n")}})
		}
	}
	for i, r := range runs {
		if r.Sc.Depth2 {
			deep = append(deep, i)
			continue
		}
		caseIdx := -1
		if terms[i] != "" {
			caseIdx = sw.Add(terms[i])
			res.CaseIndex = append(res.CaseIndex, classOf(r))
		}
		report(i, caseIdx)
	}
	sw.Flush()
	for _, i := range deep {
		caseIdx := -1
		if runs[i].Root != nil && len(runs[i].Env.Inconclusive) == 0 {
			caseIdx = lw.Add(runs[i].LedgerCaseTerm())
			res.CaseIndex = append(res.CaseIndex, classOf(runs[i])+"/ledger-calls")
		}
		report(i, caseIdx)
	}
	lw.Flush()
	sw.Flush()
	res.PerFile = 6
	res.Write(out)
}

func classOf(r *Run) string {
	sc := r.Sc
	var k []string
	if sc.Honest >= 0 {
		k = append(k, "adv")
		during := false
		for _, s := range sc.Steps {
			during = during || (s.Kind != "adv" && s.Adv != nil)
		}
		if during {
			k = append(k, "during")
		} else {
			k = append(k, "between")
		}
	} else {
		k = append(k, "honest")
	}
	subs, final := false, false
	for _, s := range sc.Steps {
		subs = subs || s.Kind == "opensub"
		final = final || s.Kind == "final"
	}
	if subs {
		k = append(k, "subs")
	}
	if sc.Depth2 {
		k = append(k, "depth2")
	}
	if final {
		k = append(k, "final")
	}
	if sc.Agree != nil {
		k = append(k, "agreement")
	}
	if sc.PayApp {
		k = append(k, "app")
	}
	return strings.Join(k, "/")
}

// shape: the sequence of ledger call kinds and results, for the distinct count
func shape(r *Run) string {
	var s []string
	for _, e := range r.Env.Log.E {
		if e.Kind == LCall && e.Call.Kind != "tick" {
			s = append(s, e.Call.Tag+e.Call.Kind[:3]+sl.ErrNames[e.Call.Code])
		}
	}
	sort.Strings(s[:0])
	return strings.Join(s, ",")
}
