// Package c18: the message relay hands every envelope over exactly once (property C18).
//
// Two parts, both against the real wire.Relay:
//
//	(a) sequential histories: random sequences of the relay's atomic actions (put, subscribe, cache,
//	    release, consumer close, the delete goroutine, the hand-over goroutine's deliveries, relay close)
//	    executed one at a time; the two goroutines the relay spawns are held back by the recording consumer
//	    so that the harness decides where in the history they run. Every observation (who was handed the
//	    envelope, in which order, subscription and cache counts after the action) is written as a Coq case
//	    and compared action by action with Model/Relay.v.
//	(b) concurrent stress runs with an interval oracle written from the property text: every rule is
//	    sound for every schedule (it only uses "definitely before/after" facts from a logical clock), so a
//	    slow or unlucky schedule cannot produce a false alarm.
package c18

import (
	"context"
	"fmt"
	"math/rand"
	"runtime"
	"sort"
	"strings"
	stdsync "sync"
	"sync/atomic"
	"time"

	"perun.network/go-perun/wire"
	"verif/harness/internal/hx"
)

const (
	numTags = 6
	waitMax = 30 * time.Second // only reached when the implementation loses something
)

// ---------- envelopes and predicates ----------

type tmsg struct{ tag, uid int }

func (m *tmsg) Type() wire.Type { return wire.Type(m.tag) }

func newEnv(tag, uid int) *wire.Envelope { return &wire.Envelope{Msg: &tmsg{tag, uid}} }

func tagUID(e *wire.Envelope) (int, int) { m := e.Msg.(*tmsg); return m.tag, m.uid }

func maskPred(mask uint) wire.Predicate {
	return func(e *wire.Envelope) bool { return mask&(1<<uint(e.Msg.Type())) != 0 }
}

// sparseMask selects every tag with probability 1/d.
func sparseMask(r *rand.Rand, d int) uint {
	var m uint
	for t := 0; t < numTags; t++ {
		if r.Intn(d) == 0 {
			m |= 1 << uint(t)
		}
	}
	return m
}

func matches(mask uint, tag int) bool { return mask&(1<<uint(tag)) != 0 }

func maskTerm(mask uint) string {
	var ts []string
	for t := 0; t < numTags; t++ {
		if matches(mask, t) {
			ts = append(ts, fmt.Sprint(t))
		}
	}
	return "(ts " + hx.List(ts) + ")"
}

// siteOf names the relay method an oracle rule is about.
func siteOf(class string) string {
	switch {
	case strings.Contains(class, "handover"), strings.Contains(class, "not-first-subscriber"),
		strings.Contains(class, "cache-left"), strings.Contains(class, "cached-final"), strings.Contains(class, "subscribe"):
		return "wire.Relay.Subscribe"
	case strings.Contains(class, "delete"):
		return "wire.Relay.delete"
	case strings.Contains(class, "close"):
		return "wire.Relay.Close"
	default:
		return "wire.Relay.Put"
	}
}

func nats(xs []int) string { return hx.ListOf(xs, func(i int) string { return fmt.Sprint(i) }) }

// ====================================================================================
// (a) sequential histories
// ====================================================================================

type seqEv struct {
	cid int // -1: default handler
	e   *wire.Envelope
}

type seqRec struct {
	mu  stdsync.Mutex
	evs []seqEv
	cur atomic.Pointer[wire.Envelope] // the envelope the harness is putting right now
	ack chan struct{}
}

func (r *seqRec) add(cid int, e *wire.Envelope) {
	r.mu.Lock()
	r.evs = append(r.evs, seqEv{cid, e})
	r.mu.Unlock()
}

func (r *seqRec) len() int { r.mu.Lock(); defer r.mu.Unlock(); return len(r.evs) }

func (r *seqRec) since(n int) []seqEv {
	r.mu.Lock()
	defer r.mu.Unlock()
	return append([]seqEv(nil), r.evs[n:]...)
}

// sc is the recording consumer of the sequential part. It has the semantics of poly-go's sync.Closer
// (OnClose refuses when closed) but keeps the registered callbacks until the harness fires them, which
// is where `go p.delete(c)` starts; and it holds back Put calls that do not come from the harness's own
// Relay.Put (those are the relay's hand-over goroutine) until the harness releases them one by one.
type sc struct {
	id     int
	rec    *seqRec
	mu     stdsync.Mutex
	closed bool
	cbs    []func()
	gate   chan struct{}
}

func (c *sc) OnClose(f func()) bool {
	c.mu.Lock()
	defer c.mu.Unlock()
	if c.closed {
		return false
	}
	c.cbs = append(c.cbs, f)
	return true
}

func (c *sc) OnCloseAlways(f func()) bool {
	c.mu.Lock()
	defer c.mu.Unlock()
	if c.closed {
		f()
		return false
	}
	c.cbs = append(c.cbs, f)
	return true
}

func (c *sc) Put(e *wire.Envelope) {
	if c.rec.cur.Load() == e {
		c.rec.add(c.id, e)
		return
	}
	<-c.gate
	c.rec.add(c.id, e)
	c.rec.ack <- struct{}{}
}

func (c *sc) close() bool {
	c.mu.Lock()
	defer c.mu.Unlock()
	if c.closed {
		return false
	}
	c.closed = true
	return true
}

func (c *sc) pendingCallbacks() int { c.mu.Lock(); defer c.mu.Unlock(); return len(c.cbs) }

func (c *sc) fire() {
	c.mu.Lock()
	cbs := c.cbs
	c.cbs = nil
	c.mu.Unlock()
	for _, f := range cbs {
		f()
	}
}

func trySubscribe(r *wire.Relay, c wire.Consumer, p wire.Predicate) (err error, panicked bool) {
	defer func() {
		if x := recover(); x != nil {
			panicked = true
		}
	}()
	return r.Subscribe(c, p), false
}

type putInfo struct {
	e        *wire.Envelope
	class    string // fanout | cached | default | closed
	expect   []int  // fanout: the consumers subscribed with a matching predicate at that moment
	assigned int    // cached: the first later subscriber with a matching predicate, -1 if none (yet)
	dropped  bool   // cached and still in the cache when the relay was closed
}

type seqOut struct {
	term    string
	label   string
	classes map[string]int
	fails   []hx.Failure
	nops    int
}

func waitFor(cond func() bool) bool {
	deadline := time.Now().Add(waitMax)
	for i := 0; !cond(); i++ {
		if time.Now().After(deadline) {
			return false
		}
		if i < 200 {
			runtime.Gosched()
		} else {
			time.Sleep(50 * time.Microsecond)
		}
	}
	return true
}

func runSeq(r *rand.Rand, hid int, maxOps int) seqOut {
	out := seqOut{classes: map[string]int{}}
	fail := func(class, what string) {
		out.fails = append(out.fails, hx.Failure{Site: siteOf(class), InputClass: class, What: what})
	}
	relay := wire.NewRelay()
	rec := &seqRec{ack: make(chan struct{}, 1<<14)}
	relay.SetDefaultMsgHandler(func(e *wire.Envelope) { rec.add(-1, e) })
	nC := 3 + r.Intn(4)
	cons := make([]*sc, nC)
	for i := range cons {
		cons[i] = &sc{id: i, rec: rec, gate: make(chan struct{})}
	}
	nP := 3
	pmask := make([]uint, nP)
	preds := make([]wire.Predicate, nP)
	for k := range preds {
		pmask[k] = uint(r.Intn(1 << numTags))
		if r.Intn(4) == 0 {
			pmask[k] = 1 << uint(r.Intn(numTags))
		}
		preds[k] = maskPred(pmask[k])
	}
	// the oracle's own bookkeeping, written from the property text
	open := true
	live := map[int]uint{}  // subscriptions in effect
	cpred := map[int]uint{} // active cache predicates
	var retained []*putInfo // envelopes that must be kept for a later subscriber, in order
	var puts []*putInfo
	inflight := make([]int, nC) // observed from the real cache size: messages taken by Subscribe, not yet handed over
	consumed := 0               // events attributed to an action
	uid := 0
	var ops []string
	emit := func(act, obs string) {
		ns, nc := relay.VerifCounts()
		ops = append(ops, fmt.Sprintf("(%s,%s,%d,%d)", act, obs, ns, nc))
	}
	deliver := func(c int) {
		select {
		case cons[c].gate <- struct{}{}:
		case <-time.After(waitMax):
			fail("seq/handover-lost", fmt.Sprintf("history %d: consumer %d was owed a cached envelope but the hand-over goroutine never offered it", hid, c))
			inflight[c] = 0
			return
		}
		select {
		case <-rec.ack:
		case <-time.After(waitMax):
			fail("seq/handover-lost", fmt.Sprintf("history %d: hand-over to consumer %d did not complete", hid, c))
			inflight[c] = 0
			return
		}
		inflight[c]--
		evs := rec.since(consumed)
		consumed += len(evs)
		obs := "ODis"
		if len(evs) >= 1 {
			t, u := tagUID(evs[len(evs)-1].e)
			obs = fmt.Sprintf("OV %d %d", t, u)
		}
		emit(fmt.Sprintf("V %d", c), obs)
	}
	n := 8 + r.Intn(maxOps-7)
	for i := 0; i < n; i++ {
		x := r.Intn(100)
		switch {
		case x < 42: // put
			tag := r.Intn(numTags)
			e := newEnv(tag, uid)
			uid++
			pi := &putInfo{e: e, assigned: -1}
			if !open {
				pi.class = "closed"
			} else {
				for c, m := range live {
					if matches(m, tag) {
						pi.expect = append(pi.expect, c)
					}
				}
				sort.Ints(pi.expect)
				anyCache := false
				for _, m := range cpred {
					anyCache = anyCache || matches(m, tag)
				}
				switch {
				case len(pi.expect) > 0:
					pi.class = "fanout"
				case anyCache:
					pi.class = "cached"
					retained = append(retained, pi)
				default:
					pi.class = "default"
				}
			}
			puts = append(puts, pi)
			out.classes[pi.class]++
			rec.cur.Store(e)
			relay.Put(e)
			rec.cur.Store(nil)
			evs := rec.since(consumed)
			consumed += len(evs)
			var tos []int
			nd := 0
			for _, ev := range evs {
				if ev.cid < 0 {
					nd++
				} else {
					tos = append(tos, ev.cid)
				}
			}
			emit(fmt.Sprintf("P %d %d", tag, uid-1), fmt.Sprintf("OP %s %d", nats(tos), nd))
			// immediate part of the oracle
			if pi.class != "closed" {
				got := append([]int(nil), tos...)
				sort.Ints(got)
				wantD := 0
				if pi.class == "default" {
					wantD = 1
				}
				if fmt.Sprint(got) != fmt.Sprint(pi.expect) || nd != wantD {
					fail("seq/"+pi.class, fmt.Sprintf("history %d: put of tag %d (class %s): handed to consumers %v and %d times to the default handler, expected consumers %v and %d",
						hid, tag, pi.class, got, nd, pi.expect, wantD))
				}
			}
		case x < 56: // subscribe
			c := r.Intn(nC)
			mask := sparseMask(r, 3)
			if r.Intn(8) == 0 {
				mask = 1<<numTags - 1
			}
			_, nc0 := relay.VerifCounts()
			err, panicked := trySubscribe(relay, cons[c], maskPred(mask))
			_, nc1 := relay.VerifCounts()
			obs := "OSok"
			switch {
			case panicked:
				obs = "OPanic"
			case err == nil:
				inflight[c] += nc0 - nc1
				live[c] = mask
				var keep []*putInfo
				for _, pi := range retained {
					t, _ := tagUID(pi.e)
					if matches(mask, t) {
						pi.assigned = c
					} else {
						keep = append(keep, pi)
					}
				}
				retained = keep
			case strings.Contains(err.Error(), "producer closed"):
				obs = "OSrc"
			case strings.Contains(err.Error(), "consumer closed"):
				obs = "OScc"
			default:
				obs = "OSother"
			}
			emit(fmt.Sprintf("S %d %s", c, maskTerm(mask)), obs)
		case x < 67: // cache
			k := r.Intn(nP)
			relay.Cache(&preds[k])
			if open {
				cpred[k] = pmask[k]
			}
			emit(fmt.Sprintf("C %d %s", k, maskTerm(pmask[k])), "OU")
		case x < 72: // release
			k := r.Intn(nP)
			relay.ReleaseCache(&preds[k])
			delete(cpred, k)
			emit(fmt.Sprintf("R %d", k), "OU")
		case x < 80: // consumer close
			c := r.Intn(nC)
			fresh := cons[c].close()
			emit(fmt.Sprintf("X %d", c), "OX "+hx.Bool(fresh))
		case x < 88: // the goroutine started by the consumer's OnClose callback: p.delete(c)
			var cand []int
			for c := range cons {
				cons[c].mu.Lock()
				if cons[c].closed && len(cons[c].cbs) > 0 {
					cand = append(cand, c)
				}
				cons[c].mu.Unlock()
			}
			if len(cand) == 0 {
				continue
			}
			c := cand[r.Intn(len(cand))]
			ns0, _ := relay.VerifCounts()
			cons[c].fire()
			if _, sub := live[c]; open && sub {
				if !waitFor(func() bool { ns, _ := relay.VerifCounts(); return ns == ns0-1 }) {
					fail("seq/delete", fmt.Sprintf("history %d: closed consumer %d was not removed from the subscriptions", hid, c))
				}
			}
			delete(live, c)
			emit(fmt.Sprintf("D %d", c), "OD")
		case x < 97: // one delivery of the hand-over goroutine
			var cand []int
			for c := range inflight {
				if inflight[c] > 0 {
					cand = append(cand, c)
				}
			}
			if len(cand) == 0 {
				continue
			}
			deliver(cand[r.Intn(len(cand))])
		default: // relay close
			if i < n/2 && r.Intn(4) != 0 {
				continue
			}
			ns0, nc0 := relay.VerifCounts()
			err := relay.Close()
			if err != nil && !open {
				// the harness knows that it closed this relay before: a second Close is refused
				// (whatever the message says)
				emit("F", "OFalready")
				continue
			}
			// Relay.Close = Closer.Close (flag) followed by the locked clearing; reported as two actions
			ops = append(ops, fmt.Sprintf("(F,OFok,%d,%d)", ns0, nc0))
			nerr := 0
			if err != nil {
				if _, e := fmt.Sscanf(err.Error(), "cache was not empty (%d)", &nerr); e != nil {
					nerr = -1
				}
			}
			if nerr < 0 {
				emit("G", "OSother")
			} else {
				emit("G", fmt.Sprintf("OG %d", nerr))
			}
			if open {
				if nerr < 0 {
					// the error text could not be read: the count is what the cache held
					nerr = nc0
				}
				if nerr != len(retained) || nc0 != len(retained) {
					fail("seq/close", fmt.Sprintf("history %d: Close reports %d cached envelopes (cache size %d), %d were retained for later subscribers", hid, nerr, nc0, len(retained)))
				}
				for _, pi := range retained {
					pi.dropped = true
				}
				retained = nil
				live = map[int]uint{}
				cpred = map[int]uint{}
				open = false
			}
		}
	}
	// drain: let every hand-over goroutine finish
	for c := range inflight {
		for inflight[c] > 0 {
			deliver(c)
		}
	}
	for _, c := range cons {
		close(c.gate)
	}
	time.Sleep(300 * time.Microsecond) // best effort: catch deliveries nobody was owed
	extra := rec.len() - consumed
	// final part of the oracle: where did every envelope put into the open relay end up?
	all := rec.since(0)
	for _, pi := range puts {
		if pi.class == "closed" {
			continue
		}
		per := map[int]int{}
		for _, ev := range all {
			if ev.e == pi.e {
				per[ev.cid]++
			}
		}
		want := map[int]int{}
		switch pi.class {
		case "fanout":
			for _, c := range pi.expect {
				want[c] = 1
			}
		case "cached":
			if pi.assigned >= 0 {
				want[pi.assigned] = 1
			}
		case "default":
			want[-1] = 1
		}
		if fmt.Sprint(per) != fmt.Sprint(want) {
			t, u := tagUID(pi.e)
			fail("seq/"+pi.class+"-final", fmt.Sprintf("history %d: envelope (tag %d, id %d, class %s) was handed over as %v (consumer -> times, -1 = default handler), the property demands %v",
				hid, t, u, pi.class, per, want))
		}
	}
	if open {
		relay.Close() //nolint:errcheck
	}
	for _, c := range cons {
		c.close()
		c.fire()
	}
	out.term = fmt.Sprintf("H [%s] %d", strings.Join(ops, ";"), extra)
	out.nops = len(ops)
	var cl []string
	for k := range out.classes {
		cl = append(cl, k)
	}
	sort.Strings(cl)
	out.label = "seq/" + strings.Join(cl, "+")
	return out
}

// ====================================================================================
// (b) concurrent stress with the interval oracle
// ====================================================================================

const inf = int64(1) << 62

// stc is the recording consumer of the stress runs. The embedded Receiver supplies the real
// sync.Closer (OnClose / Close); Put is overridden so that nothing is ever dropped or blocked.
type stc struct {
	*wire.Receiver
	id   int
	mask uint
	mu   stdsync.Mutex
	got  []*wire.Envelope

	subOK                                bool
	subStart, subRet, closeStart, delCnf int64 // logical clock; closeStart/delCnf = inf while not happened
}

func (c *stc) Put(e *wire.Envelope) {
	c.mu.Lock()
	c.got = append(c.got, e)
	c.mu.Unlock()
}

func (c *stc) count() int { c.mu.Lock(); defer c.mu.Unlock(); return len(c.got) }

type cacheIv struct {
	mask                       uint
	cStart, cRet, rStart, rRet int64
}

type sput struct {
	e      *wire.Envelope
	tag    int
	ps, pe int64
}

type stressCfg struct {
	Run, Producers, PerPhase int
	Sub                      int64
}

func runStress(cfg stressCfg, res *hx.Result) (nenv int, fails []hx.Failure) {
	var clk atomic.Int64
	now := func() int64 { return clk.Add(1) }
	relay := wire.NewRelay()
	var hmu stdsync.Mutex
	handled := map[*wire.Envelope]int{}
	relay.SetDefaultMsgHandler(func(e *wire.Envelope) { hmu.Lock(); handled[e]++; hmu.Unlock() })
	var idc atomic.Int64
	var cmu stdsync.Mutex
	var consumers []*stc
	newC := func(mask uint) *stc {
		c := &stc{Receiver: wire.NewReceiver(), id: int(idc.Add(1)), mask: mask, closeStart: inf, delCnf: inf}
		cmu.Lock()
		consumers = append(consumers, c)
		cmu.Unlock()
		return c
	}
	subscribe := func(c *stc) {
		c.subStart = now()
		err := relay.Subscribe(c, maskPred(c.mask))
		c.subRet = now()
		c.subOK = err == nil
	}
	failf := func(class, format string, a ...interface{}) {
		fails = append(fails, hx.Failure{Site: siteOf(class), InputClass: class, What: fmt.Sprintf("stress run %d: ", cfg.Run) + fmt.Sprintf(format, a...), Case: -1,
			Replay: cfg})
	}
	// tags: 0,1,2 have stable subscribers (overlapping), 3 has churning subscribers and a churning cache
	// predicate, 4 has no subscriber until the end and a permanent cache predicate, 5 has nobody.
	stable := []*stc{newC(0b000011), newC(0b000110), newC(0b000010)}
	for _, c := range stable {
		subscribe(c)
	}
	// a real wire.Receiver drained by its owner, subscribed for tags 0 and 2
	rcv := wire.NewReceiver()
	rcvC := &stc{id: int(idc.Add(1)), mask: 0b000101, closeStart: inf, delCnf: inf}
	cmu.Lock()
	consumers = append(consumers, rcvC)
	cmu.Unlock()
	rcvC.subStart = now()
	rcvC.subOK = relay.Subscribe(rcv, maskPred(rcvC.mask)) == nil
	rcvC.subRet = now()
	rctx, rcancel := context.WithCancel(context.Background())
	var rwg stdsync.WaitGroup
	rwg.Add(1)
	go func() {
		defer rwg.Done()
		for {
			e, err := rcv.Next(rctx)
			if err != nil {
				return
			}
			rcvC.Put(e)
		}
	}()
	numStable := len(stable) + 1

	var ivmu stdsync.Mutex
	var ivs []*cacheIv
	perm := maskPred(0b010000)
	p4 := &cacheIv{mask: 0b010000, cStart: now(), rStart: inf, rRet: inf}
	relay.Cache(&perm)
	p4.cRet = now()
	ivs = append(ivs, p4)

	var stopCons, stopCache atomic.Bool
	var cwg, kwg stdsync.WaitGroup
	consumerChurn := func(seed int64, masks []uint) {
		defer cwg.Done()
		r := rand.New(rand.NewSource(seed))
		for !stopCons.Load() {
			c := newC(masks[r.Intn(len(masks))])
			subscribe(c)
			for k := r.Intn(40); k > 0; k-- {
				runtime.Gosched()
			}
			c.closeStart = now()
			c.Close() //nolint:errcheck
			for k := r.Intn(20); k > 0; k-- {
				runtime.Gosched()
			}
		}
	}
	cacheChurn := func(seed int64, mask uint) {
		defer kwg.Done()
		r := rand.New(rand.NewSource(seed))
		p := maskPred(mask)
		for !stopCache.Load() {
			iv := &cacheIv{mask: mask, rStart: inf, rRet: inf}
			iv.cStart = now()
			relay.Cache(&p)
			iv.cRet = now()
			ivmu.Lock()
			ivs = append(ivs, iv)
			ivmu.Unlock()
			for k := r.Intn(60); k > 0; k-- {
				runtime.Gosched()
			}
			iv.rStart = now()
			relay.ReleaseCache(&p)
			iv.rRet = now()
			for k := r.Intn(60); k > 0; k-- {
				runtime.Gosched()
			}
		}
	}
	sr := rand.New(rand.NewSource(cfg.Sub))
	cwg.Add(2)
	go consumerChurn(sr.Int63(), []uint{0b001000, 0b001100})
	go consumerChurn(sr.Int63(), []uint{0b001000, 0b001100})
	kwg.Add(2)
	go cacheChurn(sr.Int63(), 0b001000)
	go cacheChurn(sr.Int63(), 0b011000)

	putsBy := make([][]sput, cfg.Producers)
	produce := func(phase int) {
		var pwg stdsync.WaitGroup
		start := make(chan struct{})
		for p := 0; p < cfg.Producers; p++ {
			pwg.Add(1)
			seed := sr.Int63()
			go func(p int) {
				defer pwg.Done()
				r := rand.New(rand.NewSource(seed))
				<-start
				for i := 0; i < cfg.PerPhase; i++ {
					tag := r.Intn(numTags)
					if r.Intn(3) == 0 {
						tag = 3 + r.Intn(2) // more traffic on the cache path
					}
					e := newEnv(tag, (phase*cfg.Producers+p)*1000000+i)
					ps := now()
					relay.Put(e)
					pe := now()
					putsBy[p] = append(putsBy[p], sput{e, tag, ps, pe})
				}
			}(p)
		}
		close(start)
		pwg.Wait()
	}
	// phase 1: consumer churn and cache churn
	produce(0)
	stopCons.Store(true)
	cwg.Wait()
	if !waitFor(func() bool { ns, _ := relay.VerifCounts(); return ns == numStable }) {
		ns, _ := relay.VerifCounts()
		failf("stress/delete", "%d subscriptions remain after every churning consumer was closed, expected %d", ns, numStable)
	}
	tconf := now()
	cmu.Lock()
	for _, c := range consumers {
		if c.closeStart != inf {
			c.delCnf = tconf
		}
	}
	cmu.Unlock()
	// phase 2: cache churn only (tag 3 now has definitely no subscriber)
	produce(1)
	stopCache.Store(true)
	kwg.Wait()

	// the stable Receiver must have been handed every envelope of tags 0 and 2
	wantR := 0
	for _, ps := range putsBy {
		for _, p := range ps {
			nenv++
			if matches(rcvC.mask, p.tag) {
				wantR++
			}
		}
	}
	waitFor(func() bool { return rcvC.count() >= wantR })

	// late subscribers take what the cache retained: first tag 4, then everything that is left
	_, nc0 := relay.VerifCounts()
	l4 := newC(0b010000)
	subscribe(l4)
	_, nc1 := relay.VerifCounts()
	lAll := newC(1<<numTags - 1)
	subscribe(lAll)
	_, nc2 := relay.VerifCounts()
	if !l4.subOK || !lAll.subOK {
		failf("stress/subscribe", "late subscription refused")
	}
	if !waitFor(func() bool { return l4.count() >= nc0-nc1 }) {
		failf("stress/handover-lost", "Subscribe took %d cached envelopes for the tag-4 subscriber, only %d were handed over", nc0-nc1, l4.count())
	}
	// lAll also receives nothing directly (no put is running any more)
	if !waitFor(func() bool { return lAll.count() >= nc1-nc2 }) {
		failf("stress/handover-lost", "Subscribe took %d cached envelopes for the catch-all subscriber, only %d were handed over", nc1-nc2, lAll.count())
	}
	if nc2 != 0 {
		failf("stress/cache-left", "%d envelopes stay in the cache although a subscriber matching everything subscribed", nc2)
	}
	for _, c := range append(append([]*stc{}, stable...), l4, lAll) {
		c.closeStart = now()
		c.Close() //nolint:errcheck
	}
	rcancel()
	rwg.Wait()
	rcv.Close() //nolint:errcheck
	if err := relay.Close(); err != nil {
		failf("stress/close", "Close: %v", err)
	}

	// ---------------- oracle ----------------
	deliv := map[*wire.Envelope][]*stc{}
	cmu.Lock()
	cs := append([]*stc(nil), consumers...)
	cmu.Unlock()
	for _, c := range cs {
		c.mu.Lock()
		for _, e := range c.got {
			deliv[e] = append(deliv[e], c)
		}
		c.mu.Unlock()
	}
	counts := map[string]int{}
	bad := func(class string, p sput, format string, a ...interface{}) {
		counts[class]++
		if counts[class] <= 3 {
			failf(class, "envelope (tag %d, id %d): "+format, append([]interface{}{p.tag, p.e.Msg.(*tmsg).uid}, a...)...)
		}
	}
	outcome := map[string]int{}
	for _, ps := range putsBy {
		for _, p := range ps {
			ds := deliv[p.e]
			h := handled[p.e]
			per := map[*stc]int{}
			for _, c := range ds {
				per[c]++
			}
			// R1 no duplicates
			for c, n := range per {
				if n > 1 {
					bad("stress/duplicate", p, "handed %d times to consumer %d", n, c.id)
				}
			}
			if h > 1 {
				bad("stress/duplicate", p, "handed %d times to the default handler", h)
			}
			// R2 never to a consumer whose predicate rejects it; R8 never to a consumer deleted before the put
			late := 0
			for c := range per {
				if !matches(c.mask, p.tag) {
					bad("stress/rejecting-consumer", p, "handed to consumer %d whose predicate (mask %b) rejects it", c.id, c.mask)
				}
				if c.delCnf < p.ps {
					bad("stress/delivered-after-delete", p, "handed to consumer %d whose subscription had been removed before the put started", c.id)
				}
				if c.subStart > p.pe {
					late++
				}
			}
			// R3 every consumer definitely subscribed with a matching predicate during the whole put got it
			definite := 0
			possible := 0
			for _, c := range cs {
				if !c.subOK || !matches(c.mask, p.tag) {
					continue
				}
				if c.subRet < p.ps && p.pe < c.closeStart {
					definite++
					if per[c] != 1 {
						bad("stress/fanout-missed", p, "consumer %d was subscribed with a matching predicate during the whole put and was handed the envelope %d times", c.id, per[c])
					}
				}
				if c.subStart < p.pe && p.ps < c.delCnf {
					possible++
				}
			}
			// R4 nothing is lost (the cache was drained by the catch-all subscriber at the end)
			if len(ds)+h == 0 {
				bad("stress/lost", p, "put into the open relay and never handed to anybody (%d definite, %d possible subscribers)", definite, possible)
			}
			// R5 fallback is exclusive: default handler xor consumers; a hand-over from the cache is the only one
			if h > 0 && len(ds) > 0 {
				bad("stress/not-exclusive", p, "handed to the default handler and to %d consumers", len(ds))
			}
			if late > 0 && len(ds) != 1 {
				bad("stress/not-exclusive", p, "handed over from the cache to a later subscriber and %d times in total", len(ds))
			}
			// R5b the later subscriber is the first one with a matching predicate
			if late == 1 && len(ds) == 1 {
				c := ds[0]
				for _, c2 := range cs {
					// c2 subscribed (completely) before c began to: either after the put had returned, or
					// overlapping the put while staying subscribed until the put had returned - whichever of
					// Put and Subscribe took effect first, c2 was entitled to the envelope before c
					if c2 != c && c2.subOK && matches(c2.mask, p.tag) && (c2.subStart > p.pe || c2.closeStart > p.pe) && c2.subRet < c.subStart {
						bad("stress/not-first-subscriber", p, "kept in the cache past the matching subscription of consumer %d and handed to consumer %d", c2.id, c.id)
						break
					}
				}
			}
			// R6 with a definite subscriber there is no fallback
			if definite > 0 && (h > 0 || late > 0) {
				bad("stress/fanout-and-fallback", p, "had %d matching subscribers and still went to the cache/default handler", definite)
			}
			// R7 without any possible subscriber: cache iff a cache predicate matched
			if possible == 0 {
				defC, posC := false, false
				for _, iv := range ivs {
					if !matches(iv.mask, p.tag) {
						continue
					}
					if iv.cRet < p.ps && p.pe < iv.rStart {
						defC = true
					}
					if iv.cStart < p.pe && p.ps < iv.rRet {
						posC = true
					}
				}
				if defC && h > 0 {
					bad("stress/cache-vs-default", p, "a matching cache predicate was active and the envelope went to the default handler")
				}
				if !posC && h != 1 {
					bad("stress/cache-vs-default", p, "no subscriber and no cache predicate matched, the default handler got it %d times", h)
				}
			}
			switch {
			case h > 0:
				outcome["default"]++
			case late > 0:
				outcome["via-cache"]++
			default:
				outcome[fmt.Sprintf("fanout-%d", len(ds))]++
			}
		}
	}
	for k, v := range outcome {
		res.Outcomes["stress/"+k] += v
	}
	for class, n := range counts {
		if n > 3 {
			failf(class, "... %d envelopes in total fail this rule", n)
		}
	}
	return nenv, fails
}

// Run is the driver of property C18.
func Run(seed int64, tier, out string) {
	hx.Seed(seed)
	res := hx.NewResult("C18", seed, tier)
	res.Rule = "sequential histories: random sequences of put/subscribe/cache/release/consumer-close/delete/hand-over/close on one wire.Relay, " +
		"distinct by the whole (actions, observations) term, trivial if no envelope was put; stress: concurrent producers with subscribe/close/cache churn, one evaluation per run"
	perFile, nSeq, maxOps, nStress, perPhase := 32, 320, 40, 12, 500
	if tier == "thorough" {
		perFile, nSeq, maxOps, nStress, perPhase = 100, 4000, 60, 60, 3000
	}
	w := hx.NewCaseWriter(out, "Run.Compare_C18", perFile)
	res.PerFile = perFile
	for h := 0; h < nSeq; h++ {
		r := rand.New(rand.NewSource(hx.Rng.Int63()))
		o := runSeq(r, h, maxOps)
		idx := w.Add(o.term)
		res.CaseIndex = append(res.CaseIndex, o.label)
		res.Count("seq", o.label, o.term, len(o.classes) == 0)
		for k, v := range o.classes {
			res.Outcomes["seq-put/"+k] += v
		}
		if h < 3 {
			res.Sample(map[string]interface{}{"kind": "sequential history", "case": o.term})
		}
		for _, f := range o.fails {
			f.Case = idx
			f.Replay = map[string]interface{}{"history": h, "case": o.term}
			res.Fail(f)
		}
	}
	total := 0
	for k := 0; k < nStress; k++ {
		cfg := stressCfg{Run: k, Producers: 8 + hx.Rng.Intn(9), PerPhase: perPhase, Sub: hx.Rng.Int63()}
		n, fails := runStress(cfg, res)
		total += n
		outc := "ok"
		if len(fails) > 0 {
			outc = "violated"
		}
		res.Count("stress", outc, fmt.Sprintf("stress/%d/%d", cfg.Producers, k), false)
		if k == 0 {
			res.Sample(map[string]interface{}{"kind": "stress run", "producers": cfg.Producers, "envelopes": n, "oracle_failures": len(fails)})
		}
		for _, f := range fails {
			res.Fail(f)
		}
	}
	res.Outcomes["stress/envelopes"] = total
	w.Close()
	res.Write(out)
}
