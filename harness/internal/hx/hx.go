// Package hx holds what every property driver of the harness shares: the single PRNG,
// rendering of Go values as Coq terms, the cases_*.v writer, and the result file.
package hx

import (
	"encoding/hex"
	"encoding/json"
	"fmt"
	"math/big"
	"math/rand"
	"os"
	"path/filepath"
	"sort"
	"strings"
)

// Rng is the one source of randomness of a harness run (seeded from VERIF_SEED).
var Rng *rand.Rand

func Seed(s int64) { Rng = rand.New(rand.NewSource(s)) }

// ---------- Coq term rendering ----------

func Hex(b []byte) string { return `(unhex "` + hex.EncodeToString(b) + `")` }

func N(n uint64) string { return fmt.Sprintf("%d%%N", n) }

func Nat(n int) string { return fmt.Sprintf("%d%%nat", n) }

func Bool(b bool) string {
	if b {
		return "true"
	}
	return "false"
}

// Z renders a big integer. Small ones as numerals, large ones as big-endian hex (numerals of
// hundreds of digits are pathologically slow to parse in Coq 8.16).
func Z(z *big.Int) string {
	if z == nil {
		return "znil"
	}
	if z.BitLen() < 60 {
		return fmt.Sprintf("(%s)%%Z", z.String())
	}
	h := hex.EncodeToString(new(big.Int).Abs(z).Bytes())
	if z.Sign() < 0 {
		return `(znegbe "` + h + `")`
	}
	return `(zbe "` + h + `")`
}

func List(items []string) string { return "[" + strings.Join(items, "; ") + "]" }

func ListOf[T any](xs []T, f func(T) string) string {
	items := make([]string, len(xs))
	for i, x := range xs {
		items[i] = f(x)
	}
	return List(items)
}

func Opt(present bool, s string) string {
	if !present {
		return "None"
	}
	return "(Some " + s + ")"
}

func App(ctor string, args ...string) string {
	return "(" + ctor + " " + strings.Join(args, " ") + ")"
}

// ---------- cases files ----------

// CaseWriter shards cases into files of at most PerFile cases. Each file defines
// `cases`, evaluates `mismatches cases` with vm_compute and prints it.
type CaseWriter struct {
	Dir     string
	Module  string // e.g. "Run.Compare_C15"
	PerFile int
	cur     []string
	nfiles  int
	Total   int
}

func NewCaseWriter(dir, module string, perFile int) *CaseWriter {
	return &CaseWriter{Dir: dir, Module: module, PerFile: perFile}
}

func (w *CaseWriter) Add(term string) int {
	w.cur = append(w.cur, term)
	w.Total++
	if len(w.cur) >= w.PerFile {
		w.flush()
	}
	return w.Total - 1
}

func (w *CaseWriter) flush() {
	if len(w.cur) == 0 {
		return
	}
	base := w.nfiles * w.PerFile
	var sb strings.Builder
	fmt.Fprintf(&sb, "From V Require Import %s.\nOpen Scope list_scope.\n", w.Module)
	fmt.Fprintf(&sb, "Definition cases := [\n%s\n].\n", strings.Join(w.cur, ";\n"))
	fmt.Fprintf(&sb, "Definition M := Eval vm_compute in mismatches %d%%nat cases.\nPrint M.\n", base)
	name := filepath.Join(w.Dir, fmt.Sprintf("cases_%03d.v", w.nfiles))
	if err := os.WriteFile(name, []byte(sb.String()), 0o644); err != nil {
		panic(err)
	}
	w.nfiles++
	w.cur = nil
}

func (w *CaseWriter) Close() { w.flush() }

// ---------- result file ----------

// Failure is one oracle failure: a concrete input on which the property fails in the real code.
type Failure struct {
	Site       string      `json:"site"`        // call site / function
	InputClass string      `json:"input_class"` // generator class of the failing input
	What       string      `json:"what"`
	Case       int         `json:"case"`
	Replay     interface{} `json:"replay"`
}

type Result struct {
	Property           string         `json:"property"`
	Seed               int64          `json:"seed"`
	Tier               string         `json:"tier"`
	Evaluations        int            `json:"evaluations"`
	DistinctNontrivial int            `json:"distinct_nontrivial"`
	Rule               string         `json:"rule"`
	Distribution       map[string]int `json:"distribution"`
	Outcomes           map[string]int `json:"outcomes"`
	Samples            []interface{}  `json:"samples"`
	Failures           []Failure      `json:"failures"`
	CaseIndex          []string       `json:"case_index"` // short description per case, for mismatch reports
	Warnings           []string       `json:"warnings"`
	PerFile            int            `json:"per_file"`
	Exhaustive         bool           `json:"exhaustive"`
	distinct           map[string]struct{}
}

func NewResult(prop string, seed int64, tier string) *Result {
	return &Result{Property: prop, Seed: seed, Tier: tier, Distribution: map[string]int{},
		Outcomes: map[string]int{}, distinct: map[string]struct{}{}}
}

// Count records one evaluated case of a generator class with its observed outcome; key identifies
// the (abstract input, outcome) pair for the distinct count; trivial cases are not counted as distinct.
func (r *Result) Count(class, outcome, key string, trivial bool) {
	r.Evaluations++
	r.Distribution[class]++
	r.Outcomes[class+"/"+outcome]++
	if !trivial {
		r.distinct[key] = struct{}{}
	}
}

func (r *Result) Sample(s interface{}) {
	if len(r.Samples) < 6 {
		r.Samples = append(r.Samples, s)
	}
}

func (r *Result) Fail(f Failure) {
	if len(r.Failures) < 200 {
		r.Failures = append(r.Failures, f)
	}
}

func (r *Result) Write(dir string) {
	r.DistinctNontrivial = len(r.distinct)
	// coverage warnings: a class with a single outcome kind
	byClass := map[string]int{}
	for k := range r.Outcomes {
		byClass[strings.SplitN(k, "/", 2)[0]]++
	}
	classes := make([]string, 0, len(byClass))
	for c := range byClass {
		classes = append(classes, c)
	}
	sort.Strings(classes)
	b, err := json.MarshalIndent(r, "", " ")
	if err != nil {
		panic(err)
	}
	if err := os.WriteFile(filepath.Join(dir, "result.json"), b, 0o644); err != nil {
		panic(err)
	}
}

// Inflight records the input that is about to be handed to the implementation, so that a fatal
// runtime error (out of memory, unrecoverable panic in another goroutine, deadlock) that kills the
// harness still leaves the concrete failing input behind for the check to report.
func Inflight(dir, site, class, input string) {
	b, _ := json.Marshal(map[string]string{"site": site, "input_class": class, "input": input})
	_ = os.WriteFile(filepath.Join(dir, "inflight.json"), b, 0o644)
}

// InflightDone removes the record after the call returned.
func InflightDone(dir string) { _ = os.Remove(filepath.Join(dir, "inflight.json")) }
