// Package c17: a channel ID commits to the channel parameters.
package c17

import (
	"bytes"
	"crypto/sha256"
	"fmt"
	"math/big"
	"math/rand"
	"os"
	"path/filepath"
	"strings"

	"perun.network/go-perun/channel"
	"perun.network/go-perun/wallet"
	"perun.network/go-perun/wire/perunio"
	"verif/harness/internal/cv"
	"verif/harness/internal/hx"
)

// preimage re-encodes the fields in the order the sim backend hashes them; sha256(preimage) must be
// the ID the implementation computed (checked), so the bytes shipped to Coq are what the code hashes.
func preimage(p *channel.Params) []byte {
	var buf bytes.Buffer
	if err := perunio.Encode(&buf, wallet.AddressMapArray{Addr: p.Parts}, p.Nonce, p.ChallengeDuration, channel.OptAppEnc{App: p.App}, p.LedgerChannel, p.VirtualChannel); err != nil {
		panic(err)
	}
	return buf.Bytes()
}

type raw struct {
	cd      uint64
	parts   []map[wallet.BackendID]wallet.Address
	app     channel.App
	nonce   *big.Int
	ledger  bool
	virtual bool
	aux     channel.Aux
}

func (r raw) term() string {
	return hx.App("mkParams", hx.N(r.cd), cv.Wamaps(r.parts), cv.AppDef(r.app), hx.Z(r.nonce), hx.Bool(r.ledger), hx.Bool(r.virtual), hx.Hex(r.aux[:]))
}

func newParams(r raw) (p *channel.Params, ok bool, panicked bool) {
	defer func() {
		if x := recover(); x != nil {
			p, ok, panicked = nil, false, true
		}
	}()
	p, err := channel.NewParams(r.cd, r.parts, r.app, r.nonce, r.ledger, r.virtual, r.aux)
	return p, err == nil, false
}

func Run(seed int64, tier, out string) {
	hx.Seed(seed)
	g := &cv.Gen{R: rand.New(rand.NewSource(hx.Rng.Int63()))}
	res := hx.NewResult("C17", seed, tier)
	res.PerFile = 40
	var cases []string
	nfiles, total := 0, 0
	flush := func() {
		if len(cases) == 0 {
			return
		}
		var sb strings.Builder
		sb.WriteString("From V Require Import Run.Compare_C17.\nOpen Scope list_scope.\n")
		fmt.Fprintf(&sb, "Definition cases := [\n%s\n].\n", strings.Join(cases, ";\n"))
		fmt.Fprintf(&sb, "Definition M := Eval vm_compute in pmismatches %d%%nat cases.\nPrint M.\n", total)
		if err := os.WriteFile(filepath.Join(out, fmt.Sprintf("cases_%03d.v", nfiles)), []byte(sb.String()), 0o644); err != nil {
			panic(err)
		}
		nfiles++
		total += len(cases)
		cases = nil
	}
	add := func(c, class string) int {
		idx := total + len(cases)
		cases = append(cases, c)
		res.CaseIndex = append(res.CaseIndex, class)
		if len(cases) >= 40 {
			flush()
		}
		return idx
	}
	n := 25
	if tier == "thorough" {
		n = 1500
	}
	fail := func(site, class, what string, idx int, replay interface{}) {
		res.Fail(hx.Failure{Site: site, InputClass: class, What: what, Case: idx, Replay: replay})
	}
	for it := 0; it < n; it++ {
		np := 2 + g.R.Intn(4)
		base := raw{cd: 1 + g.R.Uint64()>>uint(g.R.Intn(64)), nonce: g.Nonce(), ledger: g.R.Intn(2) == 0, virtual: g.R.Intn(2) == 0, aux: g.Aux()}
		base.app, _ = g.AppData()
		for i := 0; i < np; i++ {
			base.parts = append(base.parts, g.WAddr())
		}
		p, ok, _ := newParams(base)
		idx := add(hx.App("CNew", base.term(), hx.Bool(ok)), "valid")
		res.Count("new/valid", fmt.Sprint(ok), fmt.Sprintf("new/valid/%d/%v", np, ok), false)
		if !ok {
			fail("channel.NewParams", "valid", "valid parameters refused", idx, base.term())
			continue
		}
		pre := preimage(p)
		id := p.ID()
		if sha256.Sum256(pre) != id {
			fail("sim/channel.CalcID", "valid", "ID is not the SHA-256 of (parts, nonce, challenge duration, app, ledger, virtual)", idx, base.term())
		}
		add(hx.App("CPre", base.term(), hx.Hex(pre)), "preimage")
		res.Sample(map[string]interface{}{"params": base.term(), "id": fmt.Sprintf("%x", id)})
		// determinism: clone, recomputation (x3), restored from the encoding
		for k := 0; k < 3; k++ {
			if q, _, _ := newParams(base); q == nil || q.ID() != id {
				fail("channel.NewParams", "recompute", "recomputing the ID of equal parameters gives a different ID", idx, base.term())
			}
		}
		if p.Clone().ID() != id {
			fail("channel.Params.Clone", "clone", "clone has a different ID", idx, base.term())
		}
		var buf bytes.Buffer
		if err := p.Encode(&buf); err == nil {
			var q channel.Params
			if err := q.Decode(&buf); err != nil || q.ID() != id {
				fail("channel.Params.Decode", "roundtrip", "parameters restored from their encoding have a different ID", idx, base.term())
			}
		}
		// machine-created states carry the ID
		if channel.IsStateApp(p.App) {
			acc := g.Account()
			parts := append([]map[wallet.BackendID]wallet.Address{}, base.parts...)
			parts[0] = map[wallet.BackendID]wallet.Address{0: acc.Address()}
			r2 := base
			r2.parts = parts
			if p2, ok2, _ := newParams(r2); ok2 {
				m, err := channel.NewStateMachine(map[wallet.BackendID]wallet.Account{0: acc}, *p2)
				if err == nil {
					al := g.Alloc(1, np, 0)
					data := channel.NoData()
					if p2.App == channel.App(cv.MockApp) {
						data = channel.NewMockOp(channel.OpValid)
					}
					if err := m.Init(al, data); err == nil && m.StagingState().ID != p2.ID() {
						fail("channel.StateMachine.Init", "machine-id", "state created by the machine does not carry the parameters' ID", idx, nil)
					}
				}
			}
		}
		// failing ID computations in the backend (parameters it cannot encode) leave no trace
		for k, poison := range []func(r *raw){
			func(r *raw) { b := make([]byte, 200); b[0] = 1; r.nonce = new(big.Int).SetBytes(b) },
			func(r *raw) { r.nonce = big.NewInt(-5) },
			func(r *raw) { r.nonce = nil },
		} {
			r := base
			poison(&r)
			func() {
				defer func() { _ = recover() }()
				_, _ = channel.CalcID(&channel.Params{ChallengeDuration: r.cd, Parts: r.parts, App: r.app, Nonce: r.nonce, LedgerChannel: r.ledger, VirtualChannel: r.virtual})
			}()
			cid, cerr := channel.CalcID(p)
			func() {
				defer func() { _ = recover() }()
				_ = channel.NewParamsUnsafe(r.cd, r.parts, r.app, r.nonce, r.ledger, r.virtual, r.aux)
			}()
			q, _, _ := newParams(base)
			good := cerr == nil && cid == id && q != nil && q.ID() == id && p.Clone().ID() == id
			res.Count("after-failed-calcid", fmt.Sprintf("%d/%v", k, good), fmt.Sprintf("after-failed-calcid/%d/%v", k, good), false)
			if !good {
				fail("sim/channel.CalcID", "recompute-after-failure", "the ID of equal parameters changed after an unrelated failing ID computation", idx, base.term())
			}
		}
		// every single-field change yields a different ID
		variants := []struct {
			name string
			f    func(r *raw)
		}{
			{"cd", func(r *raw) { r.cd ^= 1 << uint(g.R.Intn(63)); if r.cd == 0 { r.cd = 7 } }},
			{"part-address", func(r *raw) { r.parts = append([]map[wallet.BackendID]wallet.Address{}, r.parts...); r.parts[g.R.Intn(len(r.parts))] = g.WAddr() }},
			{"part-order", func(r *raw) { r.parts = append([]map[wallet.BackendID]wallet.Address{}, r.parts...); r.parts[0], r.parts[1] = r.parts[1], r.parts[0] }},
			{"part-added", func(r *raw) { r.parts = append(append([]map[wallet.BackendID]wallet.Address{}, r.parts...), g.WAddr()) }},
			{"app", func(r *raw) {
				if channel.IsNoApp(r.app) {
					r.app = cv.PayApp
				} else if r.app == channel.App(cv.PayApp) {
					r.app = cv.MockApp
				} else {
					r.app = channel.NoApp()
				}
			}},
			{"nonce", func(r *raw) { r.nonce = new(big.Int).Add(r.nonce, big.NewInt(1)) }},
			{"ledger", func(r *raw) { r.ledger = !r.ledger }},
			{"virtual", func(r *raw) { r.virtual = !r.virtual }},
		}
		for _, v := range variants {
			r := base
			v.f(&r)
			q, ok, _ := newParams(r)
			if !ok {
				continue
			}
			vidx := add(hx.App("CPre", r.term(), hx.Hex(preimage(q))), "variant/"+v.name)
			same := q.ID() == id
			res.Count("variant/"+v.name, fmt.Sprintf("same=%v", same), fmt.Sprintf("variant/%s/%v", v.name, same), false)
			if same {
				fail("sim/channel.CalcID", v.name, "changing "+v.name+" does not change the ID", vidx, map[string]string{"a": base.term(), "b": r.term()})
			}
		}
		// constraint violations are refused
		bad := []struct {
			name string
			f    func(r *raw)
		}{
			{"cd=0", func(r *raw) { r.cd = 0 }},
			{"one-participant", func(r *raw) { r.parts = r.parts[:1] }},
			{"no-participant", func(r *raw) { r.parts = nil }},
			{"nonce-33-bytes", func(r *raw) { b := make([]byte, 33); b[0] = 1; r.nonce = new(big.Int).SetBytes(b) }},
			{"nonce-32-bytes", func(r *raw) { b := make([]byte, 32); b[0] = 0xff; r.nonce = new(big.Int).SetBytes(b) }},
			{"empty-address-map", func(r *raw) { r.parts = append([]map[wallet.BackendID]wallet.Address{}, r.parts...); r.parts[len(r.parts)-1] = map[wallet.BackendID]wallet.Address{} }},
			{"wrong-map-key", func(r *raw) { r.parts = append([]map[wallet.BackendID]wallet.Address{}, r.parts...); r.parts[0] = map[wallet.BackendID]wallet.Address{1: g.Account().Address()} }},
		}
		if it%25 == 0 && tier == "thorough" {
			bad = append(bad, struct {
				name string
				f    func(r *raw)
			}{"1025-participants", func(r *raw) {
				a := g.WAddr()
				r.parts = nil
				for i := 0; i < 1025; i++ {
					r.parts = append(r.parts, a)
				}
			}})
		}
		for _, v := range bad {
			r := base
			v.f(&r)
			_, ok, panicked := newParams(r)
			// the ID is a function of the parameters alone: no refused call before it may change it
			if q, _, _ := newParams(base); q == nil || q.ID() != id {
				fail("channel.NewParams", "recompute-after-refusal", "the ID of equal parameters changed after an unrelated refused NewParams ("+v.name+")", idx, base.term())
			}
			bidx := add(hx.App("CNew", r.term(), hx.Bool(ok)), "bad/"+v.name)
			res.Count("bad/"+v.name, fmt.Sprintf("ok=%v", ok), fmt.Sprintf("bad/%s/%v", v.name, ok), false)
			wantOK := v.name == "nonce-32-bytes"
			if panicked || ok != wantOK {
				fail("channel.NewParams", v.name, fmt.Sprintf("constraint violation %s: accepted=%v panicked=%v", v.name, ok, panicked), bidx, r.term())
			}
		}
	}
	flush()
	res.Rule = "after every refused or failing ID computation (NewParams, CalcID and NewParamsUnsafe on parameters the backend cannot encode) the ID of the base parameters is recomputed and must be unchanged; random parameter sets (2-5 participants, three apps, nonces up to 32 bytes), every single-field variant (ID must differ), every constraint violation (must be refused); the ID pre-image bytes (sha256 checked against Params.ID() in Go) compared with the model's id_preimage; distinct by (class, verdict)"
	res.Write(out)
}
