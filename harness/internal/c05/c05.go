// Package c05: the watcher refutes with the newest channel-tree states, once, and relays events
// (property C05).
//
// The REAL local.Watcher runs over a scripted channel.RegisterSubscriber. A history is a list of
// abstract events (publish, adjudicator events, start/stop watching, "Register fails from now on");
// the harness executes them one at a time:
//
//   - StatesPub.Publish returns once the transaction sits in the pub-sub's buffer (or was handed to
//     handleStatesFromClient); txRetriever.retrieve() drains that buffer (readPendingTxs) before it
//     answers, so every publish that returned before an event is injected is visible to the handling of
//     that event. Every history is executed in two modes, "drain" (exactly that) and "settled" (the
//     harness additionally waits -- on a condition read through the verif hook, not on the clock -- until
//     the states handler has taken the transaction); see history.run for how the 1 ms timer of
//     readPendingTxs is kept from causing false alarms.
//   - an adjudicator event is handed to the watcher through the subscription's Next(); it has been
//     handled completely when the handler goroutine calls Next() again (the scripted subscription
//     signals every Next call). Register calls are recorded by the scripted Registerer, relayed events
//     are read (non-blocking) from the buffered client streams afterwards.
//
// Every history is written as a Coq case (events, observed outputs per event, final bookkeeping read
// through watcher/local/verif_export.go) and compared with Model/Watcher.v; an oracle written from the
// property text runs on every event. A third part reports events for the three channels of a family
// concurrently and checks what must hold for every schedule (concRun).
package c05

import (
	"context"
	"encoding/binary"
	"errors"
	"fmt"
	"math/big"
	"math/rand"
	"os"
	"path/filepath"
	"runtime"
	"sort"
	"strings"
	"sync"
	"sync/atomic"
	"time"

	simchannel "perun.network/go-perun/backend/sim/channel"
	"perun.network/go-perun/channel"
	"perun.network/go-perun/channel/multi"
	"perun.network/go-perun/wallet"
	"perun.network/go-perun/watcher"
	"perun.network/go-perun/watcher/local"
	"verif/harness/internal/hx"
)

// stuckAfter is only reached when the implementation deadlocks; it is not a synchronisation device.
const stuckAfter = 60 * time.Second

// ---------- abstract events and outputs ----------

const (
	evPublish = iota
	evRegistered
	evProgressed
	evConcluded
	evStartLedger
	evStartSub
	evStop
	evFail
)

type atx struct {
	Ver, Tok uint64
	Locked   []int
}

type event struct {
	Burst  int // > 0: part of slow-reader segment number Burst; Gate is the channel whose client pauses
	Gate   int
	K      int
	Ch     int
	Parent int
	V      uint64
	Tx     atx
	Multi  bool
	B      bool
}

const (
	oRegister = iota
	oRelay
	oStart
	oStop
)

const (
	startOK = iota
	startAlready
	startNoParent
	startParentIsSub
	startOther
)

const (
	stopOK = iota
	stopRefused
	stopNotWatched
	stopPanic
	stopOther
)

type substate struct {
	ID  int
	Has bool
	Tx  atx
}

type output struct {
	Kind int
	// register
	P    int
	Tx   atx
	Subs []substate
	// relay
	Ch int
	EK int // evRegistered, evProgressed, evConcluded
	V  uint64
	// start/stop
	Res int
}

func nlist(xs []int) string {
	return hx.ListOf(xs, func(i int) string { return fmt.Sprint(i) })
}

func (t atx) term() string { return fmt.Sprintf("(T %d %d %s)", t.Ver, t.Tok, nlist(t.Locked)) }

func (e event) term() string {
	switch e.K {
	case evPublish:
		return fmt.Sprintf("Pb %d %s", e.Ch, e.Tx.term())
	case evRegistered:
		return fmt.Sprintf("Rg %d %d", e.Ch, e.V)
	case evProgressed:
		return fmt.Sprintf("Pg %d %d", e.Ch, e.V)
	case evConcluded:
		return fmt.Sprintf("Cn %d %d", e.Ch, e.V)
	case evStartLedger:
		return fmt.Sprintf("SL %d %s %s", e.Ch, hx.Bool(e.Multi), e.Tx.term())
	case evStartSub:
		return fmt.Sprintf("SS %d %d %s %s", e.Ch, e.Parent, hx.Bool(e.Multi), e.Tx.term())
	case evStop:
		return fmt.Sprintf("St %d", e.Ch)
	default:
		return "RF " + hx.Bool(e.B)
	}
}

var (
	kindName  = map[int]string{evRegistered: "KR", evProgressed: "KP", evConcluded: "KC"}
	startName = []string{"SOK", "SAL", "SNP", "SPS", "SAL"} // an error with an unknown text is a refusal (all refusals compare equal)
	stopName  = []string{"TOK", "TRF", "TNW", "TPN", "TPN"}
)

func (o output) term() string {
	switch o.Kind {
	case oRegister:
		subs := hx.ListOf(o.Subs, func(s substate) string {
			return fmt.Sprintf("(%d,%s)", s.ID, hx.Opt(s.Has, s.Tx.term()))
		})
		return fmt.Sprintf("OR %d %s %s", o.P, o.Tx.term(), subs)
	case oRelay:
		return fmt.Sprintf("Rl %d %s %d", o.Ch, kindName[o.EK], o.V)
	case oStart:
		return "Os " + startName[o.Res]
	default:
		return "Ot " + stopName[o.Res]
	}
}

// ---------- scripted RegisterSubscriber ----------

type regCall struct {
	req  channel.AdjudicatorReq
	subs []channel.SignedState
	tag  int
}

type handItem struct {
	ae  channel.AdjudicatorEvent
	tag int
}

// scriptSub is the scripted adjudicator subscription of one channel. Events are handed to the watcher
// through Next(); the harness knows that every handed event has been handled completely when the handler
// goroutine has called Next() once more than events were handed (counters, no tokens that could be lost).
type scriptSub struct {
	ev      chan handItem
	closed  chan struct{}
	once    sync.Once
	changed chan struct{} // signalled (capacity 1) on every Next call
	mu      sync.Mutex
	nexts   int // Next calls so far
	handed  int // events handed (or being handed) so far
	cur     int // tag of the event the handler took last
}

func newScriptSub() *scriptSub {
	return &scriptSub{ev: make(chan handItem), closed: make(chan struct{}), changed: make(chan struct{}, 1), cur: -1}
}

// Next tells the harness that the previous event (if any) has been handled completely.
func (s *scriptSub) Next() channel.AdjudicatorEvent {
	s.mu.Lock()
	s.nexts++
	s.mu.Unlock()
	select {
	case s.changed <- struct{}{}:
	default:
	}
	select {
	case it := <-s.ev:
		s.mu.Lock()
		s.cur = it.tag
		s.mu.Unlock()
		return it.ae
	case <-s.closed:
		return nil
	}
}

// isIdle: the handler waits in Next for an event that has not been handed yet.
func (s *scriptSub) isIdle() bool {
	s.mu.Lock()
	defer s.mu.Unlock()
	return s.nexts > s.handed
}

func (s *scriptSub) curTag() int {
	s.mu.Lock()
	defer s.mu.Unlock()
	return s.cur
}

// hand gives one event to the watcher (blocks while the handler is busy with the previous one).
func (s *scriptSub) hand(ae channel.AdjudicatorEvent, tag int) bool {
	s.mu.Lock()
	s.handed++
	s.mu.Unlock()
	t := time.NewTimer(stuckAfter)
	defer t.Stop()
	select {
	case s.ev <- handItem{ae, tag}:
		return true
	case <-s.closed:
		return false
	case <-t.C:
		return false
	}
}

// awaitIdle waits (on the Next signal, not on the clock) until every handed event has been handled.
func (s *scriptSub) awaitIdle() bool {
	t := time.NewTimer(stuckAfter)
	defer t.Stop()
	for !s.isIdle() {
		select {
		case <-s.changed:
		case <-t.C:
			return s.isIdle()
		}
	}
	return true
}

func (s *scriptSub) Err() error { return nil }

func (s *scriptSub) Close() error {
	s.once.Do(func() { close(s.closed) })
	return nil
}

type scriptRS struct {
	mu    sync.Mutex
	fail  bool
	calls []regCall
	last  map[channel.ID]*scriptSub
	// while a burst with registered events is fed to one channel, every Register call comes from that
	// channel's handler: it is tagged with the index of the event being handled
	burst  *scriptSub
	bcalls []regCall
}

func (r *scriptRS) Subscribe(_ context.Context, id channel.ID) (channel.AdjudicatorSubscription, error) {
	s := newScriptSub()
	r.mu.Lock()
	r.last[id] = s
	r.mu.Unlock()
	return s, nil
}

var errScripted = errors.New("scripted register failure")

func (r *scriptRS) Register(_ context.Context, req channel.AdjudicatorReq, subs []channel.SignedState) error {
	r.mu.Lock()
	defer r.mu.Unlock()
	if r.burst != nil {
		r.bcalls = append(r.bcalls, regCall{req, append([]channel.SignedState(nil), subs...), r.burst.curTag()})
	} else {
		r.calls = append(r.calls, regCall{req, append([]channel.SignedState(nil), subs...), -1})
	}
	if r.fail {
		return errScripted
	}
	return nil
}

func (r *scriptRS) takeCalls() []regCall {
	r.mu.Lock()
	defer r.mu.Unlock()
	c := r.calls
	r.calls = nil
	return c
}

// ---------- multi-ledger asset (only to make multi.IsMultiLedgerAssets say true) ----------

type mlID struct{ l string }

func (i mlID) BackendID() uint32        { return 0 }
func (i mlID) LedgerID() multi.LedgerID { return i }
func (i mlID) MapKey() multi.LedgerIDMapKey {
	return multi.LedgerIDMapKey(i.l)
}

type mlAsset struct {
	simchannel.Asset
	ledger string
}

func (a *mlAsset) LedgerBackendID() multi.LedgerBackendID { return mlID{a.ledger} }

// ---------- one watcher under test ----------

const junkID = 99

type world struct {
	r      *rand.Rand // concrete data only (ids, balances, signatures): never decides the abstract history
	n      int
	ids    []channel.ID
	idx    map[channel.ID]int
	params []*channel.Params
	pidx   map[*channel.Params]int
	rs     *scriptRS
	w      *local.Watcher
	pubs   []watcher.StatesPub
	adj    []watcher.AdjudicatorSub
	sub    []*scriptSub
	stuck  string
	gated  []bool // channels whose client does not read its event stream at the moment
	settle bool   // wait after every Publish until the states handler has taken the transaction
}

func newWorld(r *rand.Rand, n int) *world {
	w := &world{r: r, n: n, idx: map[channel.ID]int{}, pidx: map[*channel.Params]int{}}
	for i := 0; i < n; i++ {
		var id channel.ID
		r.Read(id[:])
		w.ids = append(w.ids, id)
		w.idx[id] = i
		p := &channel.Params{ChallengeDuration: uint64(1 + r.Intn(1000))}
		w.params = append(w.params, p)
		w.pidx[p] = i
	}
	w.rs = &scriptRS{last: map[channel.ID]*scriptSub{}}
	lw, err := local.NewWatcher(w.rs)
	if err != nil {
		panic(err)
	}
	w.w = lw
	w.pubs = make([]watcher.StatesPub, n)
	w.adj = make([]watcher.AdjudicatorSub, n)
	w.sub = make([]*scriptSub, n)
	w.gated = make([]bool, n)
	return w
}

func tokBytes(tok uint64) []byte {
	b := make([]byte, 8)
	binary.BigEndian.PutUint64(b, tok)
	return b
}

// mkTx builds a concrete transaction for the abstract one. The token sits in balance [0][0] and in the
// first signature; everything else varies freely (uniform data abstraction).
func (w *world) mkTx(ch int, t atx, multiLedger bool) channel.Transaction {
	na := 1 + w.r.Intn(2)
	np := 2 + w.r.Intn(2)
	if multiLedger {
		na = 2
	}
	al := channel.Allocation{}
	for i := 0; i < na; i++ {
		var a channel.Asset = &simchannel.Asset{ID: w.r.Uint64()}
		if multiLedger {
			a = &mlAsset{Asset: simchannel.Asset{ID: w.r.Uint64()}, ledger: fmt.Sprint("L", i)}
		}
		al.Assets = append(al.Assets, a)
		al.Backends = append(al.Backends, 0)
		row := make([]channel.Bal, np)
		for j := range row {
			row[j] = big.NewInt(int64(w.r.Intn(1 << 20)))
		}
		al.Balances = append(al.Balances, row)
	}
	al.Balances[0][0] = new(big.Int).SetUint64(t.Tok)
	for _, l := range t.Locked {
		bals := make([]channel.Bal, na)
		for j := range bals {
			bals[j] = big.NewInt(int64(w.r.Intn(1000)))
		}
		al.Locked = append(al.Locked, channel.SubAlloc{ID: w.ids[l], Bals: bals})
	}
	st := &channel.State{ID: w.ids[ch], Version: t.Ver, App: channel.NoApp(), Data: channel.NoData(),
		Allocation: al, IsFinal: w.r.Intn(8) == 0}
	junk := make([]byte, 8+w.r.Intn(60))
	w.r.Read(junk)
	return channel.Transaction{State: st, Sigs: []wallet.Sig{tokBytes(t.Tok), junk}}
}

// abstract maps an observed (params, state, sigs) triple back to the abstract transaction and the
// channel it belongs to. Anything inconsistent (state and signatures of different transactions, params
// of another channel) is mapped to junk values that match no model output.
func (w *world) abstract(p *channel.Params, st *channel.State, sigs []wallet.Sig) (owner int, t atx) {
	if st == nil {
		return junkID, atx{}
	}
	owner, ok := w.idx[st.ID]
	if !ok {
		owner = junkID
	}
	if pi, ok := w.pidx[p]; !ok || pi != owner {
		owner = junkID
	}
	t.Ver = st.Version
	t.Tok = 1 << 62
	if len(st.Balances) > 0 && len(st.Balances[0]) > 0 && st.Balances[0][0].IsUint64() {
		t.Tok = st.Balances[0][0].Uint64()
	}
	if len(sigs) != 2 || len(sigs[0]) != 8 || binary.BigEndian.Uint64(sigs[0]) != t.Tok {
		t.Tok = 1<<62 + 1
	}
	for _, l := range st.Locked {
		li, ok := w.idx[l.ID]
		if !ok {
			li = junkID
		}
		t.Locked = append(t.Locked, li)
	}
	return owner, t
}

func startRes(err error) int {
	switch {
	case err == nil:
		return startOK
	case strings.Contains(err.Error(), "already watching"):
		return startAlready
	case strings.Contains(err.Error(), "parent channel not registered"):
		return startNoParent
	case strings.Contains(err.Error(), "parent must be a ledger channel"):
		return startParentIsSub
	}
	return startOther
}

func (w *world) waitIdle(s *scriptSub, what string) bool {
	if s.awaitIdle() {
		return true
	}
	w.stuck = what
	return false
}

func (w *world) mkEvent(e event) channel.AdjudicatorEvent {
	id := w.ids[e.Ch]
	switch e.K {
	case evRegistered:
		// the state inside the event is NOT what the watcher must use: it carries a token no
		// published transaction has.
		return channel.NewRegisteredEvent(id, &channel.ElapsedTimeout{}, e.V, nil, nil)
	case evProgressed:
		return channel.NewProgressedEvent(id, &channel.ElapsedTimeout{}, &channel.State{ID: id, Version: e.V}, 0)
	default:
		return channel.NewConcludedEvent(id, &channel.ElapsedTimeout{}, e.V)
	}
}

func (w *world) relayOut(ch int, ae channel.AdjudicatorEvent) output {
	o := output{Kind: oRelay, Ch: ch, V: ae.Version()}
	switch ae.(type) {
	case *channel.RegisteredEvent:
		o.EK = evRegistered
	case *channel.ProgressedEvent:
		o.EK = evProgressed
	default:
		o.EK = evConcluded
	}
	if ae.ID() != w.ids[ch] {
		o.Ch = junkID
	}
	return o
}

func (w *world) callOut(c regCall) output {
	o := output{Kind: oRegister}
	o.P, o.Tx = w.abstract(c.req.Params, c.req.Tx.State, c.req.Tx.Sigs)
	if c.req.Secondary {
		o.P = junkID
	}
	for i, s := range c.subs {
		var ss substate
		if s.State == nil && s.Params == nil && s.Sigs == nil {
			ss.ID = junkID
			if i < len(o.Tx.Locked) {
				ss.ID = o.Tx.Locked[i]
			}
		} else {
			ss.Has = true
			ss.ID, ss.Tx = w.abstract(s.Params, s.State, s.Sigs)
		}
		o.Subs = append(o.Subs, ss)
	}
	return o
}

func (w *world) stop(ch int) (res int) {
	done := make(chan int, 1)
	go func() {
		defer func() {
			if r := recover(); r != nil {
				done <- stopPanic
			}
		}()
		err := w.w.StopWatching(context.Background(), w.ids[ch])
		switch {
		case err == nil:
			done <- stopOK
		case local.IsErrSubChannelsPresent(err):
			done <- stopRefused
		default:
			// any other error: the channel is not (or no longer) watched; the text of the message is
			// not part of the property
			done <- stopNotWatched
		}
	}()
	select {
	case res = <-done:
	case <-time.After(stuckAfter):
		w.stuck = fmt.Sprintf("StopWatching(%d) did not return", ch)
		return stopOther
	}
	return res
}

// exec runs one event against the real watcher and returns what was observed.
func (w *world) exec(e event) []output {
	var outs []output
	switch e.K {
	case evPublish:
		if w.pubs[e.Ch] != nil {
			if err := w.pubs[e.Ch].Publish(context.Background(), w.mkTx(e.Ch, e.Tx, false)); err != nil {
				panic(err)
			}
			if w.settle {
				// condition-based, not time-based: the handler goroutine is always ready to receive
				deadline := time.Now().Add(stuckAfter)
				for spins := 0; local.VerifPendingStates(w.pubs[e.Ch]) > 0; spins++ {
					if spins < 50 {
						runtime.Gosched()
					} else {
						time.Sleep(50 * time.Microsecond)
					}
					if time.Now().After(deadline) {
						w.stuck = fmt.Sprintf("published transaction of channel %d never taken", e.Ch)
						return nil
					}
				}
			}
		}
	case evRegistered, evProgressed, evConcluded:
		s := w.sub[e.Ch]
		if s == nil {
			break
		}
		if !s.hand(w.mkEvent(e), -1) {
			w.stuck = fmt.Sprintf("event for channel %d not taken", e.Ch)
			return nil
		}
		if !w.waitIdle(s, fmt.Sprintf("event for channel %d not handled", e.Ch)) {
			return nil
		}
	case evStartLedger, evStartSub:
		ctx := context.Background()
		tx := w.mkTx(e.Ch, e.Tx, e.Multi)
		ss := channel.SignedState{Params: w.params[e.Ch], State: tx.State, Sigs: tx.Sigs}
		var pub watcher.StatesPub
		var adj watcher.AdjudicatorSub
		var err error
		if e.K == evStartLedger {
			pub, adj, err = w.w.StartWatchingLedgerChannel(ctx, ss)
		} else {
			pub, adj, err = w.w.StartWatchingSubChannel(ctx, w.ids[e.Parent], ss)
		}
		r := startRes(err)
		if r == startOK {
			w.pubs[e.Ch], w.adj[e.Ch] = pub, adj
			w.rs.mu.Lock()
			w.sub[e.Ch] = w.rs.last[w.ids[e.Ch]]
			w.rs.mu.Unlock()
			// the event handler is up when it asks for its first event
			w.waitIdle(w.sub[e.Ch], fmt.Sprintf("handler of channel %d did not start", e.Ch))
		}
		outs = append(outs, output{Kind: oStart, Res: r})
	case evStop:
		r := w.stop(e.Ch)
		outs = append(outs, output{Kind: oStop, Res: r})
		if r == stopOK {
			w.pubs[e.Ch], w.sub[e.Ch] = nil, nil // w.adj is drained below and dropped when found closed
		}
	case evFail:
		w.rs.mu.Lock()
		w.rs.fail = e.B
		w.rs.mu.Unlock()
	}
	var pre []output
	for _, c := range w.rs.takeCalls() {
		pre = append(pre, w.callOut(c))
	}
	for ch := 0; ch < w.n; ch++ {
		if w.adj[ch] == nil || w.gated[ch] {
			continue
		}
	drain:
		for {
			select {
			case ae, ok := <-w.adj[ch].EventStream():
				if !ok {
					w.adj[ch] = nil
					break drain
				}
				pre = append(pre, w.relayOut(ch, ae))
			default:
				break drain
			}
		}
	}
	return append(pre, outs...)
}

// burstGrace bounds how long the harness lets the backlog of a slow reader build up before the reader
// resumes. On the pristine tree the watcher blocks in publish once the client's buffer is full, so the
// "everything handled" condition cannot come true and the grace period runs out; it only decides how
// much backlog there is when the reader resumes, never what the right observation is.
const burstGrace = 120 * time.Millisecond

// execBurst: the client of channel `gate` does not read its event stream while the events of seg that
// belong to gate are fed to the scripted subscription back to back (a feeder goroutine hands them over
// as fast as the watcher takes them; it simply blocks while the watcher blocks). The other events of seg
// (side events, of channels that are read normally) are executed meanwhile. Then the reader resumes and
// reads until every event of the burst has been handled. Register calls are attributed by the tag of
// the event the handler was working on, relayed events in order of the stream.
func (w *world) execBurst(seg []event, gate int) [][]output {
	outs := make([][]output, len(seg))
	s := w.sub[gate]
	if s == nil || w.adj[gate] == nil {
		for i, e := range seg {
			outs[i] = w.exec(e)
			if w.stuck != "" {
				return outs
			}
		}
		return outs
	}
	var idxs []int
	hasReg := false
	for i, e := range seg {
		if e.Ch == gate && (e.K == evRegistered || e.K == evProgressed || e.K == evConcluded) {
			idxs = append(idxs, i)
			hasReg = hasReg || e.K == evRegistered
		}
	}
	isGate := make(map[int]bool, len(idxs))
	for _, i := range idxs {
		isGate[i] = true
	}
	w.gated[gate] = true
	if hasReg {
		w.rs.mu.Lock()
		w.rs.burst = s
		w.rs.mu.Unlock()
	}
	done := make(chan struct{})
	var fedAll atomic.Bool
	go func() {
		defer close(done)
		for _, i := range idxs {
			if !s.hand(w.mkEvent(seg[i]), i) {
				return
			}
		}
		fedAll.Store(true)
	}()
	finish := func() {
		w.gated[gate] = false
		w.rs.mu.Lock()
		w.rs.burst = nil
		w.rs.mu.Unlock()
	}
	for i, e := range seg {
		if !isGate[i] {
			outs[i] = w.exec(e)
			if w.stuck != "" {
				finish()
				return outs
			}
		}
	}
	// let the backlog build up
	feederDone := false
	doneCh := done
	grace := time.NewTimer(burstGrace)
backlog:
	for !(feederDone && s.isIdle()) {
		select {
		case <-s.changed:
		case <-doneCh:
			feederDone, doneCh = true, nil
		case <-grace.C:
			break backlog
		}
	}
	grace.Stop()
	// the reader resumes
	stream := w.adj[gate].EventStream()
	var rel []output
	deadline := time.NewTimer(stuckAfter)
	defer deadline.Stop()
	closedStream := false
resume:
	for {
		allHandled := feederDone && s.isIdle() // checked BEFORE the drain: then the drain sees every publish
	drain:
		for !closedStream {
			select {
			case ae, ok := <-stream:
				if !ok {
					closedStream = true
					break drain
				}
				rel = append(rel, w.relayOut(gate, ae))
			default:
				break drain
			}
		}
		if allHandled || closedStream {
			break resume
		}
		select {
		case ae, ok := <-stream:
			if !ok {
				closedStream = true
			} else {
				rel = append(rel, w.relayOut(gate, ae))
			}
		case <-s.changed:
		case <-doneCh:
			feederDone, doneCh = true, nil
		case <-deadline.C:
			w.stuck = fmt.Sprintf("burst of %d events for channel %d not handled after the reader resumed", len(idxs), gate)
			finish()
			return outs
		}
	}
	if !feederDone || !fedAll.Load() {
		w.stuck = fmt.Sprintf("burst for channel %d: not every event was taken", gate)
	}
	// attribution
	w.rs.mu.Lock()
	bcalls := w.rs.bcalls
	w.rs.bcalls = nil
	w.rs.mu.Unlock()
	finish()
	for _, c := range bcalls {
		t := c.tag
		if t < 0 || t >= len(seg) || !isGate[t] {
			t = idxs[len(idxs)-1]
		}
		outs[t] = append(outs[t], w.callOut(c))
	}
	for _, c := range w.rs.takeCalls() { // no burst tagging (no registered event in the burst)
		outs[idxs[len(idxs)-1]] = append(outs[idxs[len(idxs)-1]], w.callOut(c))
	}
	j := 0
	for _, i := range idxs {
		if j < len(rel) && rel[j].Ch == gate && rel[j].EK == seg[i].K && rel[j].V == seg[i].V {
			outs[i] = append(outs[i], rel[j])
			j++
		}
	}
	for ; j < len(rel); j++ { // relayed events that match nothing in order: keep them visible
		outs[idxs[len(idxs)-1]] = append(outs[idxs[len(idxs)-1]], rel[j])
	}
	return outs
}

// snapshot renders the watcher's bookkeeping (verif hook) as Coq terms, sorted by channel index.
func (w *world) snapshot() []string {
	vs := w.w.VerifSnapshot()
	sort.Slice(vs, func(i, j int) bool { return w.idx[vs[i].ID] < w.idx[vs[j].ID] })
	var out []string
	for _, v := range vs {
		parent := "None"
		if v.Parent != nil {
			parent = fmt.Sprintf("(Some %d)", w.idx[*v.Parent])
		}
		var subs []int
		for _, id := range v.SubChs {
			subs = append(subs, w.idx[id])
		}
		sort.Ints(subs)
		var arch []string
		var keys []int
		am := map[int]channel.SignedState{}
		for id, s := range v.Archived {
			keys = append(keys, w.idx[id])
			am[w.idx[id]] = s
		}
		sort.Ints(keys)
		for _, k := range keys {
			s := am[k]
			owner, t := w.abstract(s.Params, s.State, s.Sigs)
			if owner != k {
				t.Tok = 1<<62 + 2
			}
			arch = append(arch, fmt.Sprintf("(%d,%s)", k, t.term()))
		}
		out = append(out, fmt.Sprintf("Sn %d %s %s %s %s %s %d %s %d %s", w.idx[v.ID], parent, hx.Bool(v.MultiLedger),
			nlist(subs), hx.List(arch), hx.Bool(v.Registered), v.RegisteredVersion, hx.Bool(v.Published),
			v.PublishedVersion, hx.Bool(v.DoneClosed || v.IsClosed)))
	}
	return out
}

// cleanup stops everything (sub-channels first) so that no goroutine outlives the history.
func (w *world) cleanup() {
	for pass := 0; pass < 2; pass++ {
		for _, v := range w.w.VerifSnapshot() {
			if (v.Parent != nil) == (pass == 0) {
				func() {
					defer func() { _ = recover() }()
					_ = w.w.StopWatching(context.Background(), v.ID)
				}()
			}
		}
	}
	for _, s := range w.sub {
		if s != nil {
			_ = s.Close()
		}
	}
}

// ---------- the oracle: the property text, nothing else ----------

type oracle struct {
	n        int
	watched  []bool
	multi    []bool
	parent   []int // -1: ledger channel
	newest   []atx
	archived []map[int]atx // per ledger channel: last transaction of de-registered sub-channels
	regd     []bool        // the watcher has registered a state of this channel (this watch period)
	regdVer  []uint64
	relayed  []bool // a registered event has been relayed to this channel's client
	relVer   []uint64
	fail     bool
	refused  int // channel whose stop was refused by the previous event, else -1
}

func newOracle(n int) *oracle {
	o := &oracle{n: n, watched: make([]bool, n), multi: make([]bool, n), parent: make([]int, n), newest: make([]atx, n),
		archived: make([]map[int]atx, n), regd: make([]bool, n), regdVer: make([]uint64, n),
		relayed: make([]bool, n), relVer: make([]uint64, n), refused: -1}
	return o
}

func sameTx(a, b atx) bool {
	if a.Ver != b.Ver || a.Tok != b.Tok || len(a.Locked) != len(b.Locked) {
		return false
	}
	for i := range a.Locked {
		if a.Locked[i] != b.Locked[i] {
			return false
		}
	}
	return true
}

func (o *oracle) watchedSubs(p int) int {
	k := 0
	for c := 0; c < o.n; c++ {
		if o.watched[c] && o.parent[c] == p {
			k++
		}
	}
	return k
}

type complaint struct{ site, class, what string }

// check examines the observed outputs of one event and then advances the oracle's bookkeeping.
func (o *oracle) check(e event, outs []output) []complaint {
	var bad []complaint
	say := func(site, class, f string, a ...interface{}) {
		bad = append(bad, complaint{site, class, fmt.Sprintf(f, a...)})
	}
	afterRefusal := o.refused >= 0
	refusedCh := o.refused
	o.refused = -1
	suffix := ""
	if afterRefusal {
		suffix = "-after-refused-stop"
	}
	var calls, relays []output
	for _, x := range outs {
		switch x.Kind {
		case oRegister:
			calls = append(calls, x)
		case oRelay:
			relays = append(relays, x)
		}
	}
	isChain := e.K == evRegistered || e.K == evProgressed || e.K == evConcluded
	// relays: only the event that was just reported, to the client of that channel, at most once
	for _, r := range relays {
		if !isChain || r.Ch != e.Ch || r.EK != e.K || r.V != e.V || !o.watched[e.Ch] {
			say("local.Watcher.handleEventsFromChain", "spurious-relay", "relayed %s although the reported event was %s", r.term(), e.term())
		}
	}
	if len(relays) > 1 {
		say("local.Watcher.handleEventsFromChain", "duplicate-relay", "event %s relayed %d times", e.term(), len(relays))
	}
	if !(e.K == evRegistered && o.watched[e.Ch]) && len(calls) > 0 {
		say("local.Watcher.handleRegisteredEvent", "spurious-register", "Register called on %s", e.term())
	}
	switch e.K {
	case evPublish:
		if o.watched[e.Ch] {
			o.newest[e.Ch] = e.Tx
		}
	case evProgressed, evConcluded:
		if o.watched[e.Ch] && len(relays) != 1 {
			say("local.Watcher.handleEventsFromChain", "progress-not-relayed"+suffix, "%s was not relayed", e.term())
		}
	case evRegistered:
		ch := e.Ch
		if !o.watched[ch] {
			break
		}
		root := ch
		if o.parent[ch] >= 0 {
			root = o.parent[ch]
		}
		single := !o.multi[ch]
		want := e.V < o.newest[ch].Ver && !(o.regd[ch] && o.regdVer[ch] > e.V)
		if single {
			if want && len(calls) == 0 {
				say("local.Watcher.handleRegisteredEvent", "no-refutation"+suffix,
					"registered version %d of channel %d is older than the newest published version %d (nothing newer registered before) but Register was not called", e.V, ch, o.newest[ch].Ver)
			}
			if !want && len(calls) > 0 {
				say("local.Watcher.handleRegisteredEvent", "needless-refutation",
					"Register called for registered version %d of channel %d: newest published %d, already registered %v/%d", e.V, ch, o.newest[ch].Ver, o.regd[ch], o.regdVer[ch])
			}
		}
		if len(calls) > 1 {
			say("local.Watcher.handleRegisteredEvent", "double-register", "Register called %d times for one event", len(calls))
		}
		for _, c := range calls {
			if c.P != root || !sameTx(c.Tx, o.newest[root]) {
				say("local.Watcher.registerDispute", "wrong-parent-state",
					"Register called with %d/%s, newest published ledger-channel transaction is %d/%s", c.P, c.Tx.term(), root, o.newest[root].term())
				continue
			}
			if len(c.Subs) != len(c.Tx.Locked) {
				say("local.Watcher.registerDispute", "wrong-sub-state", "%d sub-channel states for %d locked sub-channels", len(c.Subs), len(c.Tx.Locked))
				continue
			}
			for i, l := range c.Tx.Locked {
				s := c.Subs[i]
				switch {
				case l < o.n && o.watched[l]:
					if !s.Has || s.ID != l || !sameTx(s.Tx, o.newest[l]) {
						say("local.Watcher.retrieveLatestSubStates", "wrong-sub-state",
							"sub-channel %d: got %v, newest published is %s", l, s, o.newest[l].term())
					}
				default:
					if a, ok := o.archived[root][l]; ok {
						if !s.Has || s.ID != l || !sameTx(s.Tx, a) {
							say("local.Watcher.retrieveLatestSubStates", "wrong-archived-state",
								"de-registered sub-channel %d: got %v, archived last transaction is %s", l, s, a.term())
						}
					}
					// locked id that was never watched / de-registered while not locked: the text demands nothing
				}
			}
			if !o.fail { // the registration went through: remember what has been registered
				o.regd[root], o.regdVer[root] = true, c.Tx.Ver
				for i, l := range c.Tx.Locked {
					if l < o.n && o.watched[l] && c.Subs[i].Has {
						o.regd[l], o.regdVer[l] = true, c.Subs[i].Tx.Ver
					}
				}
			}
		}
		for _, r := range relays {
			if o.relayed[ch] && r.V <= o.relVer[ch] {
				say("local.Watcher.handleRegisteredEvent", "relay-not-increasing",
					"registered event version %d relayed to channel %d after version %d", r.V, ch, o.relVer[ch])
			}
			o.relayed[ch], o.relVer[ch] = true, r.V
		}
	case evStartLedger, evStartSub:
		for _, x := range outs {
			if x.Kind == oStart && x.Res == startOK {
				ch := e.Ch
				o.watched[ch], o.multi[ch], o.newest[ch] = true, e.Multi, e.Tx
				o.parent[ch] = -1
				if e.K == evStartSub {
					o.parent[ch] = e.Parent
				}
				o.archived[ch] = map[int]atx{}
				o.regd[ch], o.relayed[ch] = false, false
			}
		}
	case evStop:
		for _, x := range outs {
			if x.Kind != oStop {
				continue
			}
			ch := e.Ch
			switch x.Res {
			case stopPanic, stopOther:
				cls := "stop-panics"
				if afterRefusal && refusedCh == ch {
					cls = "repeated-refused-stop"
				}
				say("local.Watcher.StopWatching", cls, "StopWatching(%d) panicked or failed unexpectedly", ch)
			case stopRefused:
				if !o.watched[ch] || o.parent[ch] >= 0 || o.watchedSubs(ch) == 0 {
					say("local.Watcher.StopWatching", "refusal-without-sub-channels", "StopWatching(%d) refused although no sub-channel of it is watched", ch)
				}
				o.refused = ch // the channel stays watched: the checks above keep applying to it
			case stopNotWatched:
				if o.watched[ch] {
					say("local.Watcher.StopWatching", "stop-lost-channel"+suffix, "StopWatching(%d): not registered, but the channel is watched", ch)
				}
			case stopOK:
				if !o.watched[ch] {
					say("local.Watcher.StopWatching", "stop-unknown", "StopWatching(%d) succeeded for a channel that is not watched", ch)
					break
				}
				if p := o.parent[ch]; p >= 0 {
					for _, l := range o.newest[p].Locked {
						if l == ch {
							o.archived[p][ch] = o.newest[ch]
						}
					}
				}
				o.watched[ch] = false
			}
		}
	case evFail:
		o.fail = e.B
	}
	return bad
}

// ---------- history generation ----------

// gstate is the generator's own idea of the watcher (which channels are watched, their newest version);
// it only steers the choice of events and is never compared with anything.
type gstate struct {
	n       int
	watched []bool
	parent  []int
	ver     []uint64
	tok     uint64
	base    uint64
}

func newG(n int, base uint64) *gstate {
	return &gstate{n: n, watched: make([]bool, n), parent: make([]int, n), ver: make([]uint64, n), base: base, tok: 100}
}

func (g *gstate) nextTok() uint64 { g.tok++; return g.tok }

func (g *gstate) subsOf(p int) int {
	k := 0
	for c := 0; c < g.n; c++ {
		if g.watched[c] && g.parent[c] == p {
			k++
		}
	}
	return k
}

// apply advances the generator's idea by the expected effect of e.
func (g *gstate) apply(e event) {
	switch e.K {
	case evPublish:
		if g.watched[e.Ch] {
			g.ver[e.Ch] = e.Tx.Ver
		}
	case evStartLedger:
		if !g.watched[e.Ch] {
			g.watched[e.Ch], g.parent[e.Ch], g.ver[e.Ch] = true, -1, e.Tx.Ver
		}
	case evStartSub:
		if !g.watched[e.Ch] && g.watched[e.Parent] && g.parent[e.Parent] < 0 {
			g.watched[e.Ch], g.parent[e.Ch], g.ver[e.Ch] = true, e.Parent, e.Tx.Ver
		}
	case evStop:
		if g.watched[e.Ch] && (g.parent[e.Ch] >= 0 || g.subsOf(e.Ch) == 0) {
			g.watched[e.Ch] = false
		}
	}
}

func pick(r *rand.Rand, xs []int) int { return xs[r.Intn(len(xs))] }

func (g *gstate) some(r *rand.Rand, want bool) (int, bool) {
	var xs []int
	for c := 0; c < g.n; c++ {
		if g.watched[c] == want {
			xs = append(xs, c)
		}
	}
	if len(xs) == 0 {
		return 0, false
	}
	return pick(r, xs), true
}

// lockedFor chooses the sub-allocations of a ledger-channel transaction.
func (g *gstate) lockedFor(r *rand.Rand, ch int) []int {
	var l []int
	if g.parent[ch] >= 0 && r.Intn(10) != 0 {
		return nil
	}
	for c := 0; c < g.n; c++ {
		if c == ch {
			continue
		}
		p := 0.08
		if g.watched[c] && g.parent[c] == ch {
			p = 0.6
		} else if !g.watched[c] && g.parent[c] == ch {
			p = 0.5 // was a sub-channel of ch
		}
		if r.Float64() < p {
			l = append(l, c)
		}
	}
	r.Shuffle(len(l), func(i, j int) { l[i], l[j] = l[j], l[i] })
	if len(l) > 0 && r.Intn(25) == 0 {
		l = append(l, l[0]) // duplicate entry
	}
	if r.Intn(40) == 0 {
		l = append(l, ch) // the channel itself
	}
	return l
}

func (g *gstate) versionNear(r *rand.Rand, ch int) uint64 {
	v := g.ver[ch]
	switch r.Intn(8) {
	case 0:
		return g.base
	case 1, 2:
		if v > g.base {
			return v - 1
		}
		return v
	case 3, 4:
		return v
	case 5:
		return v + 1
	case 6:
		if v > g.base+1 {
			return g.base + uint64(r.Int63n(int64(v-g.base)))
		}
		return v
	default:
		return v + uint64(r.Intn(3))
	}
}

func (g *gstate) randomEvent(r *rand.Rand, nonmono, allowMulti bool, last *event) event {
	if last != nil && last.K == evStop && g.watched[last.Ch] && r.Intn(2) == 0 {
		return *last // repeat a (probably refused) stop
	}
	if _, any := g.some(r, true); !any {
		return event{K: evStartLedger, Ch: pick(r, []int{0, 0, 3}), Multi: allowMulti && r.Intn(3) == 0, Tx: atx{Ver: g.base, Tok: g.nextTok()}}
	}
	for {
		x := r.Intn(100)
		switch {
		case x < 32:
			ch, _ := g.some(r, true)
			v := g.ver[ch] + 1
			if r.Intn(8) == 0 {
				v += uint64(r.Intn(3))
			}
			if nonmono && r.Intn(3) == 0 {
				v = g.base + uint64(r.Intn(int(g.ver[ch]-g.base)+2))
			}
			return event{K: evPublish, Ch: ch, Tx: atx{Ver: v, Tok: g.nextTok(), Locked: g.lockedFor(r, ch)}}
		case x < 64:
			ch, _ := g.some(r, true)
			if r.Intn(12) == 0 {
				ch = r.Intn(g.n)
			}
			return event{K: evRegistered, Ch: ch, V: g.versionNear(r, ch)}
		case x < 69:
			ch, _ := g.some(r, true)
			k := evProgressed
			if r.Intn(2) == 0 {
				k = evConcluded
			}
			return event{K: k, Ch: ch, V: g.versionNear(r, ch)}
		case x < 82:
			ch, ok := g.some(r, false)
			if !ok || r.Intn(10) == 0 {
				ch = r.Intn(g.n)
			}
			tx := atx{Ver: g.base + uint64(r.Intn(2)), Tok: g.nextTok()}
			m := allowMulti && r.Intn(3) == 0
			if ch == 0 || ch == 3 || r.Intn(15) == 0 {
				if r.Intn(4) == 0 {
					tx.Locked = g.lockedFor(r, ch)
				}
				return event{K: evStartLedger, Ch: ch, Multi: m, Tx: tx}
			}
			p := 0
			if ch == 4 && r.Intn(2) == 0 {
				p = 3
			}
			if r.Intn(12) == 0 {
				p = r.Intn(g.n)
			}
			return event{K: evStartSub, Ch: ch, Parent: p, Multi: m, Tx: tx}
		case x < 96:
			ch, _ := g.some(r, true)
			if r.Intn(3) == 0 { // prefer ledger channels with sub-channels: refused stops
				for c := 0; c < g.n; c++ {
					if g.watched[c] && g.subsOf(c) > 0 {
						ch = c
					}
				}
			}
			if r.Intn(12) == 0 {
				ch = r.Intn(g.n)
			}
			return event{K: evStop, Ch: ch}
		default:
			return event{K: evFail, B: r.Intn(2) == 0}
		}
	}
}

type history struct {
	class           string
	n               int
	pre             int // index of the set-up prefix (exhaustive classes), else -1
	noise, diverges bool
	grp             int // exhaustive classes: number of consecutive histories that differ only in the last letter
	evs             []event
	seed            int64 // concrete-data PRNG
	// results
	outs  [][]output
	snap  []string
	bad   []complaint
	badAt []int
	stuck string
}

func randomHistory(r *rand.Rand, class string, maxLen int) *history {
	n := 5
	base := uint64(0)
	switch class {
	case "bigver":
		base = 1 << 40
	}
	g := newG(n, base)
	h := &history{class: class, n: n, pre: -1, seed: r.Int63()}
	l := 1 + r.Intn(maxLen)
	if r.Intn(3) != 0 {
		l = maxLen/2 + r.Intn(maxLen/2+1)
	}
	var last *event
	for i := 0; i < l; i++ {
		e := g.randomEvent(r, class == "nonmono", class == "multi", last)
		g.apply(e)
		h.evs = append(h.evs, e)
		last = &h.evs[len(h.evs)-1]
	}
	return h
}

// rewatchHistory: a sub-channel is de-registered while locked in the newest ledger transaction
// (archived), watched again, advanced, and then some channel of the family is disputed; random events
// before, between and after.
func rewatchHistory(r *rand.Rand, maxLen int) *history {
	n := 5
	g := newG(n, 0)
	h := &history{class: "rewatch", n: n, pre: -1, seed: r.Int63()}
	add := func(e event) {
		g.apply(e)
		h.evs = append(h.evs, e)
	}
	filler := func(k int) {
		var last *event
		for i := 0; i < k; i++ {
			e := g.randomEvent(r, false, false, last)
			if e.K == evStop || e.K == evStartLedger || e.K == evStartSub {
				continue // keep the scenario's channels as they are
			}
			add(e)
			last = &h.evs[len(h.evs)-1]
		}
	}
	subs := [][]int{{1}, {1, 2}, {2, 1}}[r.Intn(3)]
	add(event{K: evStartLedger, Ch: 0, Tx: atx{Ver: 0, Tok: g.nextTok()}})
	for _, c := range subs {
		add(event{K: evStartSub, Ch: c, Parent: 0, Tx: atx{Ver: 0, Tok: g.nextTok()}})
	}
	add(event{K: evPublish, Ch: 0, Tx: atx{Ver: g.ver[0] + 1, Tok: g.nextTok(), Locked: subs}})
	filler(r.Intn(4))
	x := subs[r.Intn(len(subs))]
	for k := r.Intn(3); k > 0; k-- {
		add(event{K: evPublish, Ch: x, Tx: atx{Ver: g.ver[x] + 1, Tok: g.nextTok()}})
	}
	if r.Intn(4) == 0 { // sometimes the sub-channel is no longer locked when it is stopped: no archive
		add(event{K: evPublish, Ch: 0, Tx: atx{Ver: g.ver[0] + 1, Tok: g.nextTok()}})
	}
	add(event{K: evStop, Ch: x})
	filler(r.Intn(3))
	if r.Intn(5) != 0 {
		add(event{K: evStartSub, Ch: x, Parent: 0, Tx: atx{Ver: g.ver[x] + uint64(r.Intn(2)), Tok: g.nextTok()}})
		for k := r.Intn(3); k > 0; k-- {
			add(event{K: evPublish, Ch: x, Tx: atx{Ver: g.ver[x] + 1, Tok: g.nextTok()}})
		}
	}
	if r.Intn(2) == 0 {
		add(event{K: evPublish, Ch: 0, Tx: atx{Ver: g.ver[0] + 1, Tok: g.nextTok(), Locked: subs}})
	}
	// disputes: outdated versions for the ledger channel and for the sub-channels
	for k := 1 + r.Intn(3); k > 0; k-- {
		c := append([]int{0}, subs...)[r.Intn(1+len(subs))]
		add(event{K: evRegistered, Ch: c, V: g.versionNear(r, c)})
		if r.Intn(2) == 0 {
			add(event{K: evPublish, Ch: x, Tx: atx{Ver: g.ver[x] + 1, Tok: g.nextTok()}})
		}
	}
	var last *event
	for len(h.evs) < maxLen && r.Intn(6) != 0 {
		e := g.randomEvent(r, false, false, last)
		add(e)
		last = &h.evs[len(h.evs)-1]
	}
	return h
}

// burstHistory: a slow reader. The client of one channel of a family does not read its event stream
// while 11..30 adjudicator events (mostly progressed with increasing versions, some registered, sometimes
// a final concluded) are reported for it; other channels of the family are read normally meanwhile.
// When the burst contains registered events the side events are progressed/concluded only (a registered
// event of the family would wait for the family lock, which the blocked handler of the burst may hold).
func burstHistory(r *rand.Rand) *history {
	n := 5
	g := newG(n, 0)
	h := &history{class: "burst", n: n, pre: -1, seed: r.Int63()}
	add := func(e event) {
		g.apply(e)
		h.evs = append(h.evs, e)
	}
	filler := func(k int) {
		var last *event
		for i := 0; i < k; i++ {
			e := g.randomEvent(r, false, false, last)
			if e.K == evStop || e.K == evStartLedger || e.K == evStartSub {
				continue
			}
			add(e)
			last = &h.evs[len(h.evs)-1]
		}
	}
	subs := [][]int{{1}, {1, 2}, {2, 1}}[r.Intn(3)]
	fam := append([]int{0}, subs...)
	add(event{K: evStartLedger, Ch: 0, Tx: atx{Ver: 0, Tok: g.nextTok()}})
	for _, c := range subs {
		add(event{K: evStartSub, Ch: c, Parent: 0, Tx: atx{Ver: 0, Tok: g.nextTok()}})
	}
	add(event{K: evPublish, Ch: 0, Tx: atx{Ver: g.ver[0] + 1, Tok: g.nextTok(), Locked: subs}})
	for _, c := range fam {
		for k := r.Intn(3); k > 0; k-- {
			tx := atx{Ver: g.ver[c] + 1, Tok: g.nextTok()}
			if c == 0 {
				tx.Locked = subs
			}
			add(event{K: evPublish, Ch: c, Tx: tx})
		}
	}
	filler(r.Intn(4))
	nb := 1
	if r.Intn(5) == 0 {
		nb = 2
	}
	for b := 1; b <= nb; b++ {
		gate := fam[r.Intn(len(fam))]
		var others []int
		for _, c := range fam {
			if c != gate {
				others = append(others, c)
			}
		}
		k := 11 + r.Intn(20)
		withReg := r.Intn(10) < 7
		v := g.ver[gate]
		if r.Intn(2) == 0 {
			v = 0
		}
		for i := 0; i < k; i++ {
			e := event{K: evProgressed, Ch: gate, V: v, Burst: b, Gate: gate}
			switch {
			case i == k-1 && r.Intn(2) == 0:
				e.K = evConcluded
			case withReg && r.Intn(6) == 0:
				e.K = evRegistered
				if r.Intn(2) == 0 {
					e.V = g.versionNear(r, gate)
				}
			}
			add(e)
			if r.Intn(3) != 0 {
				v++
			}
			if len(others) > 0 && r.Intn(8) == 0 {
				c := others[r.Intn(len(others))]
				se := event{K: evProgressed, Ch: c, V: g.versionNear(r, c), Burst: b, Gate: gate}
				switch x := r.Intn(4); {
				case x == 0:
					se.K = evConcluded
				case x == 1 && !withReg:
					se.K = evRegistered
				}
				add(se)
			}
		}
		// afterwards the channel is read normally again: its relay bookkeeping must be as if nothing
		// special had happened
		for i := r.Intn(4); i > 0; i-- {
			add(event{K: evRegistered, Ch: gate, V: g.versionNear(r, gate) + uint64(r.Intn(3))})
		}
		filler(r.Intn(4))
	}
	return h
}

// letters of the exhaustive alphabet: 1 ledger channel (0), 2 sub-channels (1, 2), versions 0..3.
// A letter is resolved to a concrete event in the context of the generator state (next version).
type letter struct {
	name string
	mk   func(g *gstate) event
}

func pubLetter(ch int, locked []int) letter {
	return letter{fmt.Sprintf("pub%d%v", ch, locked), func(g *gstate) event {
		return event{K: evPublish, Ch: ch, Tx: atx{Ver: g.ver[ch] + 1, Tok: g.nextTok(), Locked: locked}}
	}}
}

func regLetter(ch int, v uint64) letter {
	return letter{fmt.Sprintf("reg%d@%d", ch, v), func(g *gstate) event { return event{K: evRegistered, Ch: ch, V: v} }}
}

func fixed(e event) letter {
	return letter{e.term(), func(g *gstate) event {
		e := e
		if e.K == evStartSub || e.K == evStartLedger {
			e.Tx.Tok = g.nextTok()
			if !g.watched[e.Ch] && g.ver[e.Ch] > 0 {
				e.Tx.Ver = g.ver[e.Ch] + 1 // watched again: the channel has moved on
			}
		}
		return e
	}}
}

var alphabetWide = []letter{
	pubLetter(0, nil), pubLetter(0, []int{1}), pubLetter(0, []int{2, 1}),
	pubLetter(1, nil), pubLetter(2, nil),
	regLetter(0, 0), regLetter(0, 1), regLetter(0, 2), regLetter(0, 3),
	regLetter(1, 0), regLetter(1, 1), regLetter(1, 2), regLetter(2, 1),
	fixed(event{K: evStop, Ch: 0}), fixed(event{K: evStop, Ch: 1}), fixed(event{K: evStop, Ch: 2}),
	fixed(event{K: evStartSub, Ch: 1, Parent: 0}),
	fixed(event{K: evFail, B: true}), fixed(event{K: evFail, B: false}),
	fixed(event{K: evProgressed, Ch: 0, V: 1}),
}

var alphabetNarrow = []letter{
	pubLetter(0, []int{1}), pubLetter(0, nil), pubLetter(1, nil),
	regLetter(0, 0), regLetter(0, 1), regLetter(0, 2),
	regLetter(1, 0), regLetter(1, 1),
	fixed(event{K: evStop, Ch: 0}), fixed(event{K: evStop, Ch: 1}),
}

var alphabetTiny = []letter{
	pubLetter(0, []int{1}), pubLetter(1, nil),
	regLetter(0, 0), regLetter(0, 1), regLetter(1, 0),
	fixed(event{K: evStop, Ch: 1}),
}

var prefixes = [][]event{
	{ // fresh family, nothing locked yet
		{K: evStartLedger, Ch: 0, Tx: atx{Ver: 0, Tok: 1}},
		{K: evStartSub, Ch: 1, Parent: 0, Tx: atx{Ver: 0, Tok: 2}},
		{K: evStartSub, Ch: 2, Parent: 0, Tx: atx{Ver: 0, Tok: 3}},
	},
	{ // both sub-channels funded and advanced
		{K: evStartLedger, Ch: 0, Tx: atx{Ver: 0, Tok: 1}},
		{K: evStartSub, Ch: 1, Parent: 0, Tx: atx{Ver: 0, Tok: 2}},
		{K: evStartSub, Ch: 2, Parent: 0, Tx: atx{Ver: 0, Tok: 3}},
		{K: evPublish, Ch: 0, Tx: atx{Ver: 1, Tok: 4, Locked: []int{1, 2}}},
		{K: evPublish, Ch: 1, Tx: atx{Ver: 1, Tok: 5}},
		{K: evPublish, Ch: 2, Tx: atx{Ver: 2, Tok: 6}},
	},
	{ // sub-channel 1 de-registered while locked (archived), then watched again with a newer transaction
		{K: evStartLedger, Ch: 0, Tx: atx{Ver: 0, Tok: 1}},
		{K: evStartSub, Ch: 1, Parent: 0, Tx: atx{Ver: 0, Tok: 2}},
		{K: evStartSub, Ch: 2, Parent: 0, Tx: atx{Ver: 0, Tok: 3}},
		{K: evPublish, Ch: 0, Tx: atx{Ver: 1, Tok: 4, Locked: []int{1, 2}}},
		{K: evPublish, Ch: 1, Tx: atx{Ver: 1, Tok: 5}},
		{K: evPublish, Ch: 2, Tx: atx{Ver: 2, Tok: 6}},
		{K: evStop, Ch: 1},
		{K: evStartSub, Ch: 1, Parent: 0, Tx: atx{Ver: 2, Tok: 7}},
	},
}

// exhaustive returns every history prefix ++ w for all words w of the given length over the alphabet.
func exhaustive(r *rand.Rand, class string, pi int, alpha []letter, length int) []*history {
	pre := prefixes[pi]
	var out []*history
	word := make([]int, length)
	for {
		g := newG(3, 0)
		h := &history{class: class, n: 3, pre: pi, grp: len(alpha), seed: r.Int63()}
		for _, e := range pre {
			g.apply(e)
			h.evs = append(h.evs, e)
		}
		for _, li := range word {
			e := alpha[li].mk(g)
			g.apply(e)
			h.evs = append(h.evs, e)
		}
		out = append(out, h)
		i := length - 1
		for ; i >= 0; i-- {
			word[i]++
			if word[i] < len(alpha) {
				break
			}
			word[i] = 0
		}
		if i < 0 {
			return out
		}
	}
}

// ---------- running ----------

// observation of one execution of a history
type observation struct {
	nev   int
	outs  [][]output
	snap  []string
	bad   []complaint
	badAt []int
	stuck string
}

func (h *history) runOnce(settle bool) observation {
	w := newWorld(rand.New(rand.NewSource(h.seed)), h.n)
	w.settle = settle
	o := newOracle(h.n)
	ob := observation{nev: len(h.evs)}
	for i := 0; i < len(h.evs); {
		j := i + 1
		var segOuts [][]output
		if b := h.evs[i].Burst; b > 0 {
			for j < len(h.evs) && h.evs[j].Burst == b {
				j++
			}
			segOuts = w.execBurst(h.evs[i:j], h.evs[i].Gate)
		} else {
			segOuts = [][]output{w.exec(h.evs[i])}
		}
		if w.stuck != "" {
			ob.stuck = fmt.Sprintf("event %d (%s): %s", i, h.evs[i].term(), w.stuck)
			ob.nev = i
			return ob
		}
		for k, outs := range segOuts {
			ob.outs = append(ob.outs, outs)
			for _, c := range o.check(h.evs[i+k], outs) {
				ob.bad = append(ob.bad, c)
				ob.badAt = append(ob.badAt, i+k)
			}
		}
		i = j
	}
	ob.snap = w.snapshot()
	w.cleanup()
	return ob
}

func (h *history) adopt(ob observation) {
	h.evs = h.evs[:ob.nev]
	h.outs, h.snap, h.bad, h.badAt, h.stuck = ob.outs, ob.snap, ob.bad, ob.badAt, ob.stuck
}

func (ob observation) key(h *history) string {
	c := *h
	c.adopt(ob)
	return c.term() + "|" + ob.stuck
}

// run executes the history twice: "drain" (publishes are left in the pub-sub buffer, the watcher drains
// them when the next retrieve comes: readPendingTxs) and "settled" (the harness waits, through the verif
// hook, until the states handler has taken every published transaction). Both must give the same
// observations. readPendingTxs decides with a 1 ms timer when the buffer is drained; if the handler
// goroutine is descheduled for more than 1 ms at the wrong instant the drain can stop early -- that
// window is outside the model (DESIGN: partial). So a difference counts only when at least two of three
// drain runs differ from the settled run; otherwise it is scheduling noise, the settled observation is used and the history is
// counted in the warnings.
func (h *history) run() {
	a := h.runOnce(false)
	if a.stuck != "" {
		h.adopt(a)
		return
	}
	b := h.runOnce(true)
	if b.stuck != "" || a.key(h) == b.key(h) {
		h.adopt(a)
		if b.stuck != "" {
			h.adopt(b)
		}
		return
	}
	// two more drain runs: scheduling noise (probability ~1e-5 per retrieve) does not strike twice
	differing := 1
	for k := 0; k < 2; k++ {
		if x := h.runOnce(false); x.stuck != "" || x.key(h) != b.key(h) {
			differing++
		}
	}
	if differing >= 2 {
		h.adopt(a) // the drain path really behaves differently from the settled path
		h.diverges = true
		return
	}
	h.noise = true
	h.adopt(b)
}

// prefixTerms are the set-up prefixes with their (deterministic) observations as defined in
// Run/Compare_C05.v (p0, p1); a history whose observed prefix is literally that is written as p0 ++ [...].
var prefixTerms = []string{
	"[(SL 0 false (T 0 1 []),[Os SOK]); (SS 1 0 false (T 0 2 []),[Os SOK]); (SS 2 0 false (T 0 3 []),[Os SOK])]",
	"[(SL 0 false (T 0 1 []),[Os SOK]); (SS 1 0 false (T 0 2 []),[Os SOK]); (SS 2 0 false (T 0 3 []),[Os SOK]); " +
		"(Pb 0 (T 1 4 [1; 2]),[]); (Pb 1 (T 1 5 []),[]); (Pb 2 (T 2 6 []),[])]",
	"[(SL 0 false (T 0 1 []),[Os SOK]); (SS 1 0 false (T 0 2 []),[Os SOK]); (SS 2 0 false (T 0 3 []),[Os SOK]); " +
		"(Pb 0 (T 1 4 [1; 2]),[]); (Pb 1 (T 1 5 []),[]); (Pb 2 (T 2 6 []),[]); (St 1,[Ot TOK]); (SS 1 0 false (T 2 7 []),[Os SOK])]",
}

func (h *history) stepTerms(from, to int) string {
	steps := make([]string, 0, to-from)
	for i := from; i < to; i++ {
		steps = append(steps, fmt.Sprintf("(%s,%s)", h.evs[i].term(), hx.ListOf(h.outs[i], func(o output) string { return o.term() })))
	}
	return hx.List(steps)
}

func (h *history) term() string {
	steps := h.stepTerms(0, len(h.evs))
	if h.pre >= 0 && len(h.evs) >= len(prefixes[h.pre]) {
		k := len(prefixes[h.pre])
		if h.stepTerms(0, k) == prefixTerms[h.pre] {
			steps = fmt.Sprintf("(p%d ++ %s)", h.pre, h.stepTerms(k, len(h.evs)))
		}
	}
	return fmt.Sprintf("H %d %s %s", h.n, steps, hx.List(h.snap))
}

func (h *history) replay() interface{} {
	evs := make([]string, len(h.evs))
	for i, e := range h.evs {
		o := ""
		if i < len(h.outs) {
			o = " -> " + hx.ListOf(h.outs[i], func(o output) string { return o.term() })
		}
		evs[i] = e.term() + o
		if e.Burst > 0 {
			evs[i] = fmt.Sprintf("[client of %d not reading, segment %d] ", e.Gate, e.Burst) + evs[i]
		}
	}
	return map[string]interface{}{"class": h.class, "events_with_observed_outputs": evs}
}

func runAll(hs []*history, workers int) {
	var wg sync.WaitGroup
	jobs := make(chan *history)
	for i := 0; i < workers; i++ {
		wg.Add(1)
		go func() {
			defer wg.Done()
			for h := range jobs {
				h.run()
			}
		}()
	}
	for _, h := range hs {
		jobs <- h
	}
	close(jobs)
	wg.Wait()
}

type fileWriter struct {
	dir    string
	nfiles int
	total  int
}

func (w *fileWriter) write(cases []string) {
	if len(cases) == 0 {
		return
	}
	var sb strings.Builder
	sb.WriteString("From V Require Import Run.Compare_C05.\nOpen Scope list_scope.\nOpen Scope N_scope.\n")
	fmt.Fprintf(&sb, "Definition cases := [\n%s\n].\n", strings.Join(cases, ";\n"))
	fmt.Fprintf(&sb, "Definition M := Eval vm_compute in mismatches %d%%nat cases.\nPrint M.\n", w.total)
	name := filepath.Join(w.dir, fmt.Sprintf("cases_%03d.v", w.nfiles))
	if err := os.WriteFile(name, []byte(sb.String()), 0o644); err != nil {
		panic(err)
	}
	w.nfiles++
	w.total += len(cases)
}

func outcomeOf(h *history) (string, string) {
	reg, relay, refused, fails := 0, 0, 0, 0
	for _, os := range h.outs {
		for _, o := range os {
			switch {
			case o.Kind == oRegister:
				reg++
			case o.Kind == oRelay:
				relay++
			case o.Kind == oStop && o.Res == stopRefused:
				refused++
			case (o.Kind == oStart && o.Res != startOK) || (o.Kind == oStop && o.Res == stopNotWatched):
				fails++
			}
		}
	}
	b := func(n int) string {
		switch {
		case n == 0:
			return "0"
		case n == 1:
			return "1"
		}
		return "n"
	}
	return fmt.Sprintf("register=%s,relay=%s,refused=%s,errors=%s", b(reg), b(relay), b(refused), b(fails)),
		fmt.Sprintf("%d/%d/%d/%d", reg, relay, refused, fails)
}

// ---------- concurrent part: schedule-independent oracle ----------

// concRun sets up a family (ledger channel 0 locking the watched sub-channels 1 and 2, all with known
// newest transactions) and then lets three goroutines report registered / progressed / concluded events
// for the three channels at the same time. Nothing is published meanwhile, so the following holds for
// EVERY schedule if (and only if) the handling of one registered event is atomic within the family:
//   - every Register call carries the newest ledger transaction and the newest transactions of 1 and 2;
//   - Register is called exactly once if some reported registered version is older than the newest
//     version of its channel, and not at all otherwise (after the first call the whole tree counts as
//     registered with its newest versions: "the channel tree will be registered only once");
//   - per client: registered events arrive in strictly increasing version order, each is one of the
//     reported ones; every progressed/concluded event arrives.
func concRun(seed int64) (class string, bad []complaint, descr []string) {
	r := rand.New(rand.NewSource(seed))
	w := newWorld(rand.New(rand.NewSource(r.Int63())), 3)
	// settled publishes: the oracle below must not depend on the 1 ms drain window of readPendingTxs
	w.settle = true
	newestVer := []uint64{1 + uint64(r.Intn(3)), uint64(r.Intn(4)), uint64(r.Intn(4))}
	setup := []event{
		{K: evStartLedger, Ch: 0, Tx: atx{Ver: 0, Tok: 1}},
		{K: evStartSub, Ch: 1, Parent: 0, Tx: atx{Ver: 0, Tok: 2}},
		{K: evStartSub, Ch: 2, Parent: 0, Tx: atx{Ver: 0, Tok: 3}},
		{K: evPublish, Ch: 0, Tx: atx{Ver: newestVer[0], Tok: 4, Locked: []int{1, 2}}},
		{K: evPublish, Ch: 1, Tx: atx{Ver: newestVer[1], Tok: 5}},
		{K: evPublish, Ch: 2, Tx: atx{Ver: newestVer[2], Tok: 6}},
	}
	newestTx := []atx{setup[3].Tx, setup[4].Tx, setup[5].Tx}
	for _, e := range setup {
		w.exec(e)
		descr = append(descr, e.term())
	}
	say := func(site, class, f string, a ...interface{}) {
		bad = append(bad, complaint{site, class, fmt.Sprintf(f, a...)})
	}
	// the scripts of the three reporters
	scripts := make([][]event, 3)
	outdated := false
	for ch := 0; ch < 3; ch++ {
		k := 1 + r.Intn(3)
		for i := 0; i < k; i++ {
			e := event{K: evRegistered, Ch: ch, V: uint64(r.Intn(4))}
			if r.Intn(5) == 0 {
				e.K = []int{evProgressed, evConcluded}[r.Intn(2)]
			}
			if e.K == evRegistered && e.V < newestVer[ch] {
				outdated = true
			}
			scripts[ch] = append(scripts[ch], e)
			descr = append(descr, "|| "+e.term())
		}
	}
	class = "conc/none-outdated"
	if outdated {
		class = "conc/outdated"
	}
	start := make(chan struct{})
	var wg sync.WaitGroup
	var mu sync.Mutex
	for ch := 0; ch < 3; ch++ {
		wg.Add(1)
		go func(ch int) {
			defer wg.Done()
			<-start
			s := w.sub[ch]
			for _, e := range scripts[ch] {
				if !s.hand(w.mkEvent(e), -1) {
					mu.Lock()
					say("local.Watcher", "stuck", "event for channel %d not taken", ch)
					mu.Unlock()
					return
				}
				if !s.awaitIdle() {
					mu.Lock()
					say("local.Watcher", "stuck", "event for channel %d not handled", ch)
					mu.Unlock()
					return
				}
			}
		}(ch)
	}
	close(start)
	wg.Wait()
	outs := w.exec(event{K: evFail, B: false}) // collects the Register calls and drains the client streams
	ncalls := 0
	perCh := make([][]output, 3)
	for _, o := range outs {
		switch o.Kind {
		case oRegister:
			ncalls++
			ok := o.P == 0 && sameTx(o.Tx, newestTx[0]) && len(o.Subs) == 2
			for i := 0; ok && i < 2; i++ {
				ok = o.Subs[i].Has && o.Subs[i].ID == i+1 && sameTx(o.Subs[i].Tx, newestTx[i+1])
			}
			if !ok {
				say("local.Watcher.registerDispute", "conc-wrong-states", "Register called with %s, not with the newest transactions of the tree", o.term())
			}
		case oRelay:
			if o.Ch >= 0 && o.Ch < 3 {
				perCh[o.Ch] = append(perCh[o.Ch], o)
			} else {
				say("local.Watcher.handleEventsFromChain", "conc-spurious-relay", "relayed %s", o.term())
			}
		}
	}
	want := 0
	if outdated {
		want = 1
	}
	if ncalls != want {
		say("local.Watcher.handleRegisteredEvent", "conc-register-count",
			"Register called %d times, expected %d (the tree must be registered exactly once when an outdated version is reported)", ncalls, want)
	}
	for ch := 0; ch < 3; ch++ {
		// the relayed events must be a subsequence of the reported ones, progress events all of them
		i := 0
		var last uint64
		seen := false
		for _, o := range perCh[ch] {
			for i < len(scripts[ch]) && !(scripts[ch][i].K == o.EK && scripts[ch][i].V == o.V) {
				if scripts[ch][i].K != evRegistered {
					say("local.Watcher.handleEventsFromChain", "conc-progress-not-relayed", "%s was not relayed", scripts[ch][i].term())
				}
				i++
			}
			if i == len(scripts[ch]) {
				say("local.Watcher.handleEventsFromChain", "conc-spurious-relay", "relayed %s was not reported (or twice)", o.term())
				break
			}
			i++
			if o.EK == evRegistered {
				if seen && o.V <= last {
					say("local.Watcher.handleRegisteredEvent", "conc-relay-not-increasing", "channel %d: version %d relayed after %d", ch, o.V, last)
				}
				seen, last = true, o.V
			}
		}
		for ; i < len(scripts[ch]); i++ {
			if scripts[ch][i].K != evRegistered {
				say("local.Watcher.handleEventsFromChain", "conc-progress-not-relayed", "%s was not relayed", scripts[ch][i].term())
			}
		}
	}
	for _, o := range outs {
		descr = append(descr, "=> "+o.term())
	}
	w.cleanup()
	return class, bad, descr
}

func concurrentPart(gen *rand.Rand, n int, res *hx.Result) {
	type result struct {
		class string
		bad   []complaint
		descr []string
	}
	seeds := make([]int64, n)
	for i := range seeds {
		seeds[i] = gen.Int63()
	}
	results := make([]result, n)
	var wg sync.WaitGroup
	sem := make(chan struct{}, 16)
	for i := range seeds {
		wg.Add(1)
		sem <- struct{}{}
		go func(i int) {
			defer wg.Done()
			c, b, d := concRun(seeds[i])
			results[i] = result{c, b, d}
			<-sem
		}(i)
	}
	wg.Wait()
	for i, r := range results {
		outcome := "ok"
		if len(r.bad) > 0 {
			outcome = "violation"
		}
		res.Count(r.class, outcome, fmt.Sprintf("%s/%d", r.class, seeds[i]%7), false)
		for _, c := range r.bad {
			res.Fail(hx.Failure{Site: c.site, InputClass: c.class, Case: -1, What: c.what,
				Replay: map[string]interface{}{"class": r.class, "setup_then_concurrent_events_then_observations": r.descr}})
		}
	}
}

// Run is the C05 driver.
func Run(seed int64, tier, out string) {
	hx.Seed(seed)
	gen := rand.New(rand.NewSource(hx.Rng.Int63()))
	res := hx.NewResult("C05", seed, tier)
	res.Rule = "histories of publish / registered / progressed / concluded / start / stop / register-fails events against the real local.Watcher: " +
		"exhaustive words (quick: length 2 over 20 letters; thorough: length 3 over 20, length 4 over 10, length 5 over 6 letters; 1 ledger channel, 2 sub-channels, versions 0..3) after three set-up prefixes, random histories up to length 60 " +
		"(5 channel ids, two families, re-watching, duplicate and foreign locked ids; classes: plain, bigver = versions offset by 2^40, nonmono = versions not increasing (correspondence only), multi = multi-ledger assets (oracle: arguments and relays only), rewatch = sub-channel archived, watched again, advanced, then disputes, burst = slow reader: the client of one channel does not read its event stream while 11..30 events are reported for it, other channels of the family are read normally). " +
		"plus concurrent runs (three reporters at once) with a schedule-independent oracle (tree registered exactly once, newest states, relays increasing). " +
		"distinct = distinct (class, event sequence shape, observed outputs); trivial = histories without any Register call, relay or refusal"
	var hs []*history
	classes := []string{"plain", "plain", "bigver", "nonmono", "multi"}
	if tier == "thorough" {
		for pi := range prefixes {
			hs = append(hs, exhaustive(gen, fmt.Sprintf("exh3-p%d", pi), pi, alphabetWide, 3)...)
			hs = append(hs, exhaustive(gen, fmt.Sprintf("exh4-p%d", pi), pi, alphabetNarrow, 4)...)
			hs = append(hs, exhaustive(gen, fmt.Sprintf("exh5-p%d", pi), pi, alphabetTiny, 5)...)
		}
		for i := 0; i < 3000; i++ {
			hs = append(hs, randomHistory(gen, classes[i%5], 60))
		}
		for i := 0; i < 2000; i++ {
			hs = append(hs, rewatchHistory(gen, 40))
		}
		for i := 0; i < 1000; i++ {
			hs = append(hs, burstHistory(gen))
		}
		res.Exhaustive = true
	} else {
		for pi := range prefixes {
			hs = append(hs, exhaustive(gen, fmt.Sprintf("exh2-p%d", pi), pi, alphabetWide, 2)...)
		}
		for i := 0; i < 100; i++ {
			hs = append(hs, randomHistory(gen, classes[i%5], 60))
		}
		for i := 0; i < 60; i++ {
			hs = append(hs, rewatchHistory(gen, 30))
		}
		for i := 0; i < 36; i++ {
			hs = append(hs, burstHistory(gen))
		}
	}
	res.PerFile = 0
	runAll(hs, 64)

	// cases: one history each; in the thorough tier the exhaustive words that differ only in the last
	// letter form one case (Coq cannot print unary case indices beyond a few ten thousands)
	var groups [][]int
	for i := 0; i < len(hs); {
		k := 1
		if tier == "thorough" && hs[i].grp > 1 {
			k = hs[i].grp
		}
		var g []int
		for j := i; j < i+k && j < len(hs); j++ {
			g = append(g, j)
		}
		groups = append(groups, g)
		i += len(g)
	}
	w := &fileWriter{dir: out}
	terms := make([]string, len(groups))
	total := 0
	for gi, g := range groups {
		ts := make([]string, len(g))
		for k, i := range g {
			ts[k] = hs[i].term()
		}
		terms[gi] = hx.List(ts)
		total += len(terms[gi])
	}
	// 16 shards (one per core), but never less than 20 KB or more than 1 MB of case text per file
	shard := total/16 + 1
	if shard < 20000 {
		shard = 20000
	}
	if shard > 1<<20 {
		shard = 1 << 20
	}
	var cur []string
	curBytes := 0
	for gi, g := range groups {
		cur = append(cur, terms[gi])
		curBytes += len(terms[gi])
		res.CaseIndex = append(res.CaseIndex, hs[g[0]].class)
		for _, i := range g {
			h := hs[i]
			if h.stuck != "" {
				res.Fail(hx.Failure{Site: "local.Watcher", InputClass: "stuck", What: h.stuck, Case: gi, Replay: h.replay()})
			}
			oc, key := outcomeOf(h)
			shape := make([]byte, len(h.evs))
			for j, e := range h.evs {
				shape[j] = "prgcLSXf"[e.K]
			}
			res.Count(h.class, oc, h.class+"/"+string(shape)+"/"+key, strings.HasPrefix(oc, "register=0,relay=0,refused=0"))
			if len(res.Samples) < 6 && len(h.evs) <= 12 && !strings.HasPrefix(oc, "register=0") {
				res.Sample(h.replay())
			}
			oracleApplies := h.class != "nonmono"
			if oracleApplies {
				for k, c := range h.bad {
					res.Fail(hx.Failure{Site: c.site, InputClass: c.class, Case: gi,
						What: fmt.Sprintf("event %d (%s): %s", h.badAt[k], h.evs[h.badAt[k]].term(), c.what), Replay: h.replay()})
				}
			}
		}
		if curBytes >= shard {
			w.write(cur)
			cur, curBytes = nil, 0
		}
	}
	w.write(cur)
	noise, div := 0, 0
	for _, h := range hs {
		if h.noise {
			noise++
		}
		if h.diverges {
			div++
		}
	}
	if noise > 0 {
		res.Warnings = append(res.Warnings, fmt.Sprintf("%d histories: the drain run differed once from the settled run and did not reproduce (1 ms drain window hit by scheduling); settled observation used", noise))
	}
	if div > 0 {
		res.Warnings = append(res.Warnings, fmt.Sprintf("%d histories: drain run and settled run differ reproducibly; drain observation reported", div))
	}
	nconc := 80
	if tier == "thorough" {
		nconc = 3000
	}
	concurrentPart(gen, nconc, res)
	res.Write(out)
}

// Repro runs the scenario of the anticipated finding against the real watcher: a ledger channel with a
// watched sub-channel, StopWatching(ledger) is refused, then an outdated registered event and a second
// StopWatching. It waits (polling the verif snapshot) until the cancellation triggered by the closed
// done signal has propagated, so the outcome does not depend on scheduling.
func Repro() string {
	h := &history{class: "repro", n: 3, pre: -1, seed: 1, evs: []event{
		{K: evStartLedger, Ch: 0, Tx: atx{Ver: 0, Tok: 1}},
		{K: evStartSub, Ch: 1, Parent: 0, Tx: atx{Ver: 0, Tok: 2}},
		{K: evPublish, Ch: 0, Tx: atx{Ver: 1, Tok: 3, Locked: []int{1}}},
		{K: evRegistered, Ch: 0, V: 0},
		{K: evPublish, Ch: 0, Tx: atx{Ver: 2, Tok: 4, Locked: []int{1}}},
		{K: evStop, Ch: 0},
	}}
	w := newWorld(rand.New(rand.NewSource(h.seed)), h.n)
	var sb strings.Builder
	for _, e := range h.evs {
		fmt.Fprintf(&sb, "%-28s -> %s\n", e.term(), hx.ListOf(w.exec(e), func(o output) string { return o.term() }))
	}
	time.Sleep(200 * time.Millisecond) // let the goroutine `<-ch.done; cancel()` run (repro only)
	for _, e := range []event{{K: evRegistered, Ch: 0, V: 1}, {K: evStop, Ch: 0}, {K: evStop, Ch: 1}, {K: evStop, Ch: 0}} {
		fmt.Fprintf(&sb, "%-28s -> %s\n", e.term(), hx.ListOf(w.exec(e), func(o output) string { return o.term() }))
	}
	return sb.String()
}
