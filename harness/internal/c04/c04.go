// Package c04: registering an outdated state never costs the honest party money (property C04).
// One party is honest and watched by the real local watcher; the peer registers an earlier fully signed
// state between or during updates. See internal/settle and internal/strictledger.
package c04

import "verif/harness/internal/settle"

func Run(seed int64, tier, out string) { settle.RunProperty("C04", true, seed, tier, out) }
