// Package c07 ties Model/Handlers.v to the real client: C07 (a client never countersigns an update that
// is unsafe for it) and C12 (no message from a remote peer can crash a client or lock up a channel).
//
// An honest REAL client (client.New over wire.NewLocalBus, sim wallet, in-memory funder/adjudicator,
// recording persister, update handler with a scripted verdict) faces a puppet peer whose signing key
// the harness holds.  Channels of the honest client are opened by the real opening protocol against a
// second real client driven with the puppet's key, or restored from channel data (client.Restore's
// path) in a generated state.  The puppet then hands crafted envelopes to the request handlers.
package c07

import (
	"context"
	"math/rand"
	"sync"
	"time"

	simwallet "perun.network/go-perun/backend/sim/wallet"
	simwire "perun.network/go-perun/backend/sim/wire"
	"perun.network/go-perun/channel"
	"perun.network/go-perun/channel/persistence"
	"perun.network/go-perun/client"
	"perun.network/go-perun/wallet"
	"perun.network/go-perun/watcher/local"
	"perun.network/go-perun/wire"
	psync "polycry.pt/poly-go/sync"
)

// ---------- in-memory ledger: funds at once, never reports events ----------

type ledger struct{}

func (ledger) Fund(context.Context, channel.FundingReq) error { return nil }
func (ledger) Register(context.Context, channel.AdjudicatorReq, []channel.SignedState) error {
	return nil
}
func (ledger) Withdraw(context.Context, channel.AdjudicatorReq, channel.StateMap) error { return nil }
func (ledger) Progress(context.Context, channel.ProgressReq) error                      { return nil }
func (ledger) Subscribe(ctx context.Context, _ channel.ID) (channel.AdjudicatorSubscription, error) {
	return &noSub{done: make(chan struct{})}, nil
}

type noSub struct {
	done chan struct{}
	once sync.Once
}

func (s *noSub) Next() channel.AdjudicatorEvent { <-s.done; return nil }
func (s *noSub) Err() error                     { return nil }
func (s *noSub) Close() error                   { s.once.Do(func() { close(s.done) }); return nil }

// ---------- recording persister ----------

type pevent struct {
	Kind  string // "Staged", "SigAdded", "Enabled", "PhaseChanged"
	ID    channel.ID
	Idx   channel.Index
	Ver   uint64
	State *channel.State
}

type recPersister struct {
	persistence.PersistRestorer
	mu  sync.Mutex
	evs []pevent
}

func (p *recPersister) add(e pevent) {
	p.mu.Lock()
	p.evs = append(p.evs, e)
	p.mu.Unlock()
}

func (p *recPersister) Staged(ctx context.Context, s channel.Source) error {
	st := s.StagingTX().State
	if st == nil { // DiscardUpdate persists the empty staging transaction
		p.add(pevent{Kind: "Staged", ID: s.ID()})
		return nil
	}
	p.add(pevent{Kind: "Staged", ID: s.ID(), Ver: st.Version, State: st.Clone()})
	return nil
}

func (p *recPersister) SigAdded(ctx context.Context, s channel.Source, i channel.Index) error {
	st := s.StagingTX().State
	if st == nil {
		return nil
	}
	p.add(pevent{Kind: "SigAdded", ID: s.ID(), Idx: i, Ver: st.Version, State: st.Clone()})
	return nil
}

func (p *recPersister) Enabled(ctx context.Context, s channel.Source) error {
	st := s.CurrentTX().State
	if st == nil {
		return nil
	}
	p.add(pevent{Kind: "Enabled", ID: s.ID(), Ver: st.Version, State: st.Clone()})
	return nil
}

func (p *recPersister) PhaseChanged(ctx context.Context, s channel.Source) error {
	p.add(pevent{Kind: "PhaseChanged", ID: s.ID()})
	return nil
}

// take returns the events recorded so far and forgets them.
func (p *recPersister) take() []pevent {
	p.mu.Lock()
	defer p.mu.Unlock()
	e := p.evs
	p.evs = nil
	return e
}

// ---------- the honest client ----------

type verdict int

const (
	vAccept verdict = iota
	vReject
)

type honest struct {
	C     *client.Client
	Addr  map[wallet.BackendID]wire.Address
	Acc   *simwallet.Account // channel participant key of the honest client
	W     *simwallet.Wallet
	Bus   *wire.LocalBus
	PR    *recPersister
	mu    sync.Mutex
	asked int     // number of HandleUpdate calls since the last reset
	next  verdict // what the user answers
}

// puppet: the peer. The harness holds its wire identity and its signing key.
type puppet struct {
	Addr map[wallet.BackendID]wire.Address
	Acc  *simwallet.Account
}

func wireAddr(r *rand.Rand) map[wallet.BackendID]wire.Address {
	return map[wallet.BackendID]wire.Address{0: simwire.NewRandomAddress(r)}
}

func newHonest(r *rand.Rand, bus *wire.LocalBus) *honest { return newHonestWith(r, bus, nil) }

// newHonestWith creates an honest client; with old != nil it has the same wire address and the same
// participant key (a restarted client).
func newHonestWith(r *rand.Rand, bus *wire.LocalBus, old *honest) *honest {
	h := &honest{Bus: bus}
	if old != nil {
		h.Addr, h.Acc = old.Addr, old.Acc
		h.W = simwallet.NewRestoredWallet(h.Acc)
	} else {
		h.Addr = wireAddr(r)
		h.W = simwallet.NewWallet()
		h.Acc = h.W.NewRandomAccount(rand.New(rand.NewSource(r.Int63()))).(*simwallet.Account)
	}
	l := ledger{}
	w, err := local.NewWatcher(l)
	if err != nil {
		panic(err)
	}
	c, err := client.New(h.Addr, bus, l, l, map[wallet.BackendID]wallet.Wallet{0: h.W}, w)
	if err != nil {
		panic(err)
	}
	h.PR = &recPersister{PersistRestorer: persistence.NonPersistRestorer}
	c.EnablePersistence(h.PR)
	h.C = c
	return h
}

// HandleUpdate is the user's update handler: it records that it was asked and answers as scripted.
func (h *honest) HandleUpdate(_ *channel.State, _ client.ChannelUpdate, r *client.UpdateResponder) {
	h.mu.Lock()
	h.asked++
	v := h.next
	h.mu.Unlock()
	ctx, cancel := context.WithTimeout(context.Background(), 5*time.Second)
	defer cancel()
	if v == vAccept {
		_ = r.Accept(ctx)
	} else {
		_ = r.Reject(ctx, "no")
	}
}

func (h *honest) resetAsked(v verdict) {
	h.mu.Lock()
	h.asked, h.next = 0, v
	h.mu.Unlock()
}

func (h *honest) wasAsked() int {
	h.mu.Lock()
	defer h.mu.Unlock()
	return h.asked
}

// outbox is the consumer subscribed at the bus under the puppet's address: everything the honest
// client sends to the puppet lands there (LocalBus.Publish calls Put in the sender's goroutine, so
// whatever a handler sent is there when the handler has returned).
type outbox struct {
	psync.Closer
	mu    sync.Mutex
	envs  []*wire.Envelope
	probe bool
	ack   func(*wire.Envelope)
}

func newOutbox(bus *wire.LocalBus, addr map[wallet.BackendID]wire.Address) *outbox {
	o := &outbox{}
	if err := bus.SubscribeClient(o, addr); err != nil {
		panic(err)
	}
	return o
}

func (o *outbox) Put(e *wire.Envelope) {
	o.mu.Lock()
	o.envs = append(o.envs, e)
	ack := o.ack
	o.mu.Unlock()
	if ack != nil {
		ack(e)
	}
}

func (o *outbox) probing() bool {
	o.mu.Lock()
	defer o.mu.Unlock()
	return o.probe
}

func (o *outbox) setProbing(b bool) {
	o.mu.Lock()
	o.probe = b
	o.mu.Unlock()
}

// take returns what arrived so far and forgets it.
func (o *outbox) take() []*wire.Envelope {
	o.mu.Lock()
	defer o.mu.Unlock()
	e := o.envs
	o.envs = nil
	return e
}
