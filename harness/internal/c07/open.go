package c07

import (
	"context"
	"fmt"
	"math/rand"
	"time"

	simwallet "perun.network/go-perun/backend/sim/wallet"
	"perun.network/go-perun/channel"
	"perun.network/go-perun/client"
	"perun.network/go-perun/wallet"
	"perun.network/go-perun/watcher/local"
	"perun.network/go-perun/wire"
)

func newPuppet(r *rand.Rand) *puppet {
	return &puppet{Addr: wireAddr(r), Acc: simwallet.NewRandomAccount(rand.New(rand.NewSource(r.Int63())))}
}

func wmap(a wallet.Address) map[wallet.BackendID]wallet.Address {
	return map[wallet.BackendID]wallet.Address{0: a}
}

// startHandle starts the honest client's request loop: proposals are accepted from a goroutine of
// their own (handleChannelProposal holds the parent's machine mutex while the handler runs), updates
// go to the scripted update handler.
func (h *honest) startHandle(r *rand.Rand, chans chan<- *client.Channel) {
	nonceRng := rand.New(rand.NewSource(r.Int63()))
	ph := client.ProposalHandlerFunc(func(cp client.ChannelProposal, pr *client.ProposalResponder) {
		go func() {
			ctx, cancel := context.WithTimeout(context.Background(), 20*time.Second)
			defer cancel()
			var acc client.ChannelProposalAccept
			switch p := cp.(type) {
			case *client.LedgerChannelProposalMsg:
				acc = p.Accept(wmap(h.Acc.Address()), client.WithNonceFrom(nonceRng))
			case *client.SubChannelProposalMsg:
				acc = p.Accept(client.WithNonceFrom(nonceRng))
			default:
				_ = pr.Reject(ctx, "unsupported")
				return
			}
			ch, err := pr.Accept(ctx, acc)
			if err != nil {
				chans <- nil
				return
			}
			chans <- ch
		}()
	})
	go h.C.Handle(ph, h)
}

// openReal runs the real channel opening protocol: a second real client, driven with the puppet's
// identity and key, proposes a ledger channel; the honest client accepts. The proposing client is
// closed afterwards, so that the puppet's address is free for the harness' own subscription.
// Participant 0 is the puppet (proposer), participant 1 the honest client.
func openReal(r *rand.Rand, h *honest, p *puppet, chans chan *client.Channel, alloc *channel.Allocation, app client.ProposalOpts) (*client.Channel, *channel.Params, error) {
	l := ledger{}
	w, _ := local.NewWatcher(l)
	pw := simwallet.NewRestoredWallet(p.Acc)
	b, err := client.New(p.Addr, h.Bus, l, l, map[wallet.BackendID]wallet.Wallet{0: pw}, w)
	if err != nil {
		return nil, nil, err
	}
	defer b.Close()
	ctx, cancel := context.WithTimeout(context.Background(), 20*time.Second)
	defer cancel()
	prop, err := client.NewLedgerChannelProposal(uint64(10+r.Intn(90)), wmap(p.Acc.Address()), alloc,
		[]map[wallet.BackendID]wire.Address{p.Addr, h.Addr}, client.WithNonceFrom(rand.New(rand.NewSource(r.Int63()))), app)
	if err != nil {
		return nil, nil, err
	}
	bch, err := b.ProposeChannel(ctx, prop)
	if err != nil {
		return nil, nil, fmt.Errorf("propose: %w", err)
	}
	params := bch.Params().Clone()
	select {
	case ch := <-chans:
		if ch == nil {
			return nil, nil, fmt.Errorf("honest client failed to accept")
		}
		return ch, params, nil
	case <-ctx.Done():
		return nil, nil, fmt.Errorf("honest client did not return a channel")
	}
}
