package c07

import (
	"context"
	"fmt"
	"math/big"
	"math/rand"
	"strings"
	"sync"
	"time"

	"perun.network/go-perun/channel"
	"perun.network/go-perun/client"
	"perun.network/go-perun/wallet"
	"perun.network/go-perun/wire"
	"verif/harness/internal/cv"
	"verif/harness/internal/hx"
)

// The parent lock of the proposal handlers: sub-channel proposals whose ProposalIDs (chosen by the
// remote proposer) collide across two parent channels of the same peer, handled at the same time
// (the user's handler is gated: it answers when the harness lets it), then the liveness probe on
// EVERY channel of the client.

const propDeadline = 20 * time.Second // only reached when something is stuck

type gate struct {
	idx     int
	release chan string // "reject" | "none"
}

type propRun struct {
	mu      sync.Mutex
	evs     []string
	entered chan *gate
	done    chan int
	props   []*client.SubChannelProposalMsg
}

func (p *propRun) indexOf(cp client.ChannelProposal) int {
	for i, q := range p.props {
		if cp == client.ChannelProposal(q) {
			return i
		}
	}
	// the bus hands over the published pointer; fall back to the parent and nonce share
	if s, ok := cp.(*client.SubChannelProposalMsg); ok {
		for i, q := range p.props {
			if q.Parent == s.Parent && q.NonceShare == s.NonceShare {
				return i
			}
		}
	}
	return -1
}

func (sh *shard) execDupProposal(force string) {
	f := sh.f
	r := f.r
	bus := wire.NewLocalBus()
	h := newHonestWith(r, bus, f.h)
	ob := newOutbox(bus, f.p.Addr)
	ob.ack = func(e *wire.Envelope) {
		m, ok := e.Msg.(*client.ChannelUpdateMsg)
		if !ok || !ob.probing() {
			return
		}
		sig, err := channel.Sign(f.p.Acc, m.State, 0)
		if err != nil {
			return
		}
		acc := &client.ChannelUpdateAccMsg{ChannelID: m.State.ID, Version: m.State.Version, Sig: sig}
		go func() {
			ctx, cancel := context.WithTimeout(context.Background(), 5*time.Second)
			defer cancel()
			_ = bus.Publish(ctx, &wire.Envelope{Sender: f.p.Addr, Recipient: h.Addr, Msg: acc})
		}()
	}
	// two ledger channels with the puppet (participant 0, the proposer side) and a third id nobody knows
	mkChan := func() (*client.Channel, *channel.State) {
		parts := []map[wallet.BackendID]wallet.Address{wmap(f.p.Acc.Address()), wmap(h.Acc.Address())}
		p, err := channel.NewParams(uint64(1+r.Intn(100)), parts, channel.NoApp(), f.g.Nonce(), true, false, channel.Aux{})
		if err != nil {
			panic(err)
		}
		st := &channel.State{ID: p.ID(), Version: uint64(1 + r.Intn(50)), App: channel.NoApp(), Data: channel.NoData(),
			Allocation: channel.Allocation{Assets: f.assets, Backends: make([]wallet.BackendID, len(f.assets)), Balances: make(channel.Balances, len(f.assets))}}
		for i := range st.Balances {
			st.Balances[i] = []channel.Bal{big.NewInt(int64(100 + r.Intn(100))), big.NewInt(int64(100 + r.Intn(100)))}
		}
		tx := channel.Transaction{State: st, Sigs: make([]wallet.Sig, 2)}
		tx.Sigs[0], _ = channel.Sign(f.p.Acc, st, 0)
		tx.Sigs[1], _ = channel.Sign(h.Acc, st, 0)
		src := &source{idx: 1, params: p, current: tx, phase: channel.Acting}
		ch, err := h.C.VerifRestoreChannel(src, nil, []map[wallet.BackendID]wire.Address{f.p.Addr, h.Addr})
		if err != nil {
			panic(err)
		}
		return ch, st
	}
	chA, stA := mkChan()
	chB, stB := mkChan()
	chans := []*client.Channel{chA, chB}
	unknown := f.g.ID()

	variants := []string{"same-id-two-parents", "same-id-two-parents", "other-id-two-parents", "same-id-same-parent", "same-id-unknown-parent"}
	variant := variants[r.Intn(len(variants))]
	if force != "" {
		variant = force
	}
	answers := []string{"reject", "reject", "none"}
	mkProp := func(parent channel.ID, st *channel.State, id client.ProposalID) *client.SubChannelProposalMsg {
		al := channel.Allocation{Assets: f.assets, Backends: make([]wallet.BackendID, len(f.assets)), Balances: make(channel.Balances, len(f.assets))}
		for i := range al.Balances {
			al.Balances[i] = []channel.Bal{big.NewInt(int64(1 + r.Intn(20))), big.NewInt(int64(1 + r.Intn(20)))}
		}
		_ = st
		p, err := client.NewSubChannelProposal(parent, uint64(1+r.Intn(50)), &al, client.WithNonceFrom(rand.New(rand.NewSource(r.Int63()))))
		if err != nil {
			panic(err)
		}
		p.ProposalID = id
		env, ok := roundTrip(&wire.Envelope{Sender: f.p.Addr, Recipient: h.Addr, Msg: p})
		if !ok {
			panic("sub-channel proposal does not round-trip")
		}
		return env.Msg.(*client.SubChannelProposalMsg)
	}
	var idX, idY client.ProposalID
	r.Read(idX[:])
	r.Read(idY[:])
	pr := &propRun{entered: make(chan *gate, 4), done: make(chan int, 4)}
	switch variant {
	case "same-id-two-parents":
		pr.props = []*client.SubChannelProposalMsg{mkProp(chA.ID(), stA, idX), mkProp(chB.ID(), stB, idX)}
	case "other-id-two-parents":
		pr.props = []*client.SubChannelProposalMsg{mkProp(chA.ID(), stA, idX), mkProp(chB.ID(), stB, idY)}
	case "same-id-same-parent":
		pr.props = []*client.SubChannelProposalMsg{mkProp(chA.ID(), stA, idX), mkProp(chA.ID(), stA, idX)}
	default:
		pr.props = []*client.SubChannelProposalMsg{mkProp(chA.ID(), stA, idX), mkProp(unknown, stA, idX)}
	}
	log := func(e string) {
		pr.mu.Lock()
		pr.evs = append(pr.evs, e)
		pr.mu.Unlock()
	}
	ph := client.ProposalHandlerFunc(func(cp client.ChannelProposal, resp *client.ProposalResponder) {
		g := &gate{idx: pr.indexOf(cp), release: make(chan string, 1)}
		log(fmt.Sprintf("A%d", g.idx)) // the parent is locked, the user is asked
		pr.entered <- g
		if a := <-g.release; a == "reject" {
			ctx, cancel := context.WithTimeout(context.Background(), 5*time.Second)
			defer cancel()
			_ = resp.Reject(ctx, "no")
		}
	})
	entered := map[int]bool{}
	go h.C.VerifHandle(ph, h, func(cp client.ChannelProposal, _ interface{}) {
		i := pr.indexOf(cp)
		pr.mu.Lock()
		if entered[i] {
			pr.evs = append(pr.evs, fmt.Sprintf("R%d", i))
		} else {
			pr.evs = append(pr.evs, fmt.Sprintf("D%d", i)) // dropped before the user was asked: no lock taken
		}
		pr.mu.Unlock()
		pr.done <- i
	})
	publish := func(i int) {
		ctx, cancel := context.WithTimeout(context.Background(), propDeadline)
		defer cancel()
		_ = bus.Publish(ctx, &wire.Envelope{Sender: f.p.Addr, Recipient: h.Addr, Msg: pr.props[i]})
	}
	stuck := ""
	waitEntered := func() *gate {
		select {
		case g := <-pr.entered:
			pr.mu.Lock()
			entered[g.idx] = true
			pr.mu.Unlock()
			return g
		case <-time.After(propDeadline):
			stuck = "a proposal handler was not entered"
			return nil
		}
	}
	waitDone := func() {
		select {
		case <-pr.done:
		case <-time.After(propDeadline):
			stuck = "a proposal handler did not return"
		}
	}
	ans := func() string { return answers[r.Intn(len(answers))] }
	switch variant {
	case "same-id-two-parents", "other-id-two-parents":
		publish(0)
		g0 := waitEntered()
		publish(1)
		g1 := waitEntered()
		if g0 != nil && g1 != nil {
			first, second := g0, g1
			if r.Intn(2) == 0 {
				first, second = g1, g0
			}
			first.release <- ans()
			waitDone()
			second.release <- ans()
			waitDone()
		}
	case "same-id-same-parent":
		publish(0)
		g0 := waitEntered()
		publish(1) // waits in prepareChannelOpening for the parent's mutex
		if g0 != nil {
			g0.release <- ans()
			waitDone()
			if g1 := waitEntered(); g1 != nil {
				g1.release <- ans()
				waitDone()
			}
		}
	default:
		publish(0)
		g0 := waitEntered()
		publish(1)
		waitDone() // the proposal for the unknown parent is dropped
		if g0 != nil {
			g0.release <- ans()
			waitDone()
		}
	}
	// every channel of the client: machine mutex free, an honest update completes or is refused in time
	var locked []string
	var lockedIDs []channel.ID
	probes := []string{}
	for _, ch := range chans {
		free := ch.VerifMachineMutexFree()
		if !free {
			lockedIDs = append(lockedIDs, ch.ID())
		}
		pf := &fctx{h: h, p: f.p, ob: ob, ch: ch, me: 1}
		res := pf.probe(probeTimeout)
		probes = append(probes, res)
		if !free || res == "hung" || res == "panic" {
			id := ch.ID()
			locked = append(locked, fmt.Sprintf("%x", id[:4]))
		}
	}
	pr.mu.Lock()
	evs := append([]string{}, pr.evs...)
	pr.mu.Unlock()
	class := "dup-proposal/" + variant
	replay := map[string]interface{}{"class": class, "events": evs, "probes": probes, "proposals": []string{cv.Msg(pr.props[0]), cv.Msg(pr.props[1])},
		"channels": []string{fmt.Sprintf("%x", chA.ID()), fmt.Sprintf("%x", chB.ID())}}
	if sh.prop == "C12" {
		switch {
		case stuck != "":
			sh.fail("client.handleChannelProposal", class, stuck, replay)
		case len(locked) > 0:
			sh.fail("client.handleChannelProposal", class, "after all proposal handlers returned channel(s) "+strings.Join(locked, ",")+
				" stay locked: an honest update cannot get the machine mutex", replay)
		}
	}
	sh.count(class, fmt.Sprintf("locked-%d", len(lockedIDs)), class+"/"+strings.Join(evs, ""))
	// the case: arrivals (lock taken) and returns in the order they happened
	pm := func(i int) string {
		p := pr.props[i]
		return hx.App("mkPM", f.idTerm(p.ProposalID), "(Some "+f.idTerm(p.Parent)+")")
	}
	var terms []string
	for _, e := range evs {
		i := int(e[1] - '0')
		switch e[0] {
		case 'A':
			terms = append(terms, hx.App("PArrive", pm(i)))
		case 'R':
			terms = append(terms, hx.App("PReturn", pm(i)))
		case 'D':
			terms = append(terms, hx.App("PArrive", pm(i)))
		}
	}
	known := []string{f.idTerm(chA.ID()), f.idTerm(chB.ID())}
	sh.cases = append(sh.cases, hx.App("HProp", hx.List(known), hx.List(terms), hx.ListOf(lockedIDs, f.idTerm)))
	sh.index = append(sh.index, class)
	_ = h.C.Close()
}
