package c07

import (
	"bytes"
	"context"
	"fmt"
	"math/big"
	"math/rand"
	"strings"
	"time"

	simwallet "perun.network/go-perun/backend/sim/wallet"
	"perun.network/go-perun/channel"
	"perun.network/go-perun/client"
	"perun.network/go-perun/wallet"
	"perun.network/go-perun/wire"
	perunio "perun.network/go-perun/wire/perunio/serializer"
	"verif/harness/internal/cv"
	"verif/harness/internal/hx"
)

// icept mirrors an update interceptor registered at the honest client's channel.
type icept struct {
	ID      channel.ID
	Bals    channel.Balances
	Awaited bool
	Pre     bool // registered by an earlier step of the same history: not registered again
	Keep    bool // stays registered after this message (unless it was awaited and thereby released)
}

// source is channel data handed to the client's restore path.
type source struct {
	idx     channel.Index
	params  *channel.Params
	staging channel.Transaction
	current channel.Transaction
	phase   channel.Phase
}

func (s *source) ID() channel.ID                 { return s.params.ID() }
func (s *source) Idx() channel.Index             { return s.idx }
func (s *source) Params() *channel.Params        { return s.params }
func (s *source) StagingTX() channel.Transaction { return s.staging }
func (s *source) CurrentTX() channel.Transaction { return s.current }
func (s *source) Phase() channel.Phase           { return s.phase }

// fctx is the context of one cases file: one pair (honest client, puppet), one channel (fixed
// parameters), the table of states and signatures referred to by the cases.
type fctx struct {
	g      *cv.Gen
	r      *rand.Rand
	h      *honest
	p      *puppet
	ob     *outbox
	ch     *client.Channel
	params *channel.Params
	me     int    // index of the honest client in the channel
	kind   string // "none" | "pay"
	assets []channel.Asset
	real   bool // the channel was opened by the real protocol
	burnt  bool // a handler is stuck or panicked: the client must be replaced

	sts      []string
	stIdx    map[string]int
	ids      []string
	idIdx    map[string]int
	lastSnap string // term of the snapshot in the context of the case being rendered
	sigs     map[string]string
	atok     map[string]uint64 // wallet address -> token of the ideal scheme
	ntok     uint64
	vaccs    []*simwallet.Account // participants of virtual channels (the harness holds their keys)
	keys     map[string]*simwallet.Account
}

func (f *fctx) peer() int { return f.me ^ 1 }

func addrKey(a wallet.Address) string {
	b, err := a.MarshalBinary()
	if err != nil {
		panic(err)
	}
	return string(b)
}

// tokOf returns the token of a participant address (fresh tokens for addresses not seen before).
func (f *fctx) tokOf(a wallet.Address) uint64 {
	k := addrKey(a)
	if t, ok := f.atok[k]; ok {
		return t
	}
	f.ntok++
	f.atok[k] = f.ntok
	return f.ntok
}

// idTerm interns a 32-byte id in the file's id table.
func (f *fctx) idTerm(id channel.ID) string {
	k := string(id[:])
	i, ok := f.idIdx[k]
	if !ok {
		i = len(f.ids)
		f.idIdx[k] = i
		f.ids = append(f.ids, hx.Hex(id[:]))
	}
	return fmt.Sprintf("(I %d)", i)
}

// zTerm renders an integer inside a term that is delimited by %Z as a whole.
func zTerm(z *big.Int) string {
	if z.BitLen() < 60 {
		if z.Sign() < 0 {
			return "(" + z.String() + ")"
		}
		return z.String()
	}
	return hx.Z(z)
}

func zList(l []channel.Bal) string { return hx.ListOf(l, zTerm) + "%Z" }

func balsTerm(b channel.Balances) string {
	return hx.ListOf(b, func(r []channel.Bal) string { return hx.ListOf(r, zTerm) }) + "%Z"
}

func (f *fctx) subAllocTerm(l channel.SubAlloc) string {
	return hx.App("mkSA", f.idTerm(l.ID), zList(l.Bals),
		hx.ListOf(l.IndexMap, func(i channel.Index) string { return hx.N(uint64(i)) }))
}

// stateTerm renders a state; states of the file's channel (id, app, assets, no data) use the short form.
func (f *fctx) stateTerm(s *channel.State) string {
	short := s.ID == f.params.ID() && channel.AppShouldEqual(f.params.App, s.App) == nil && channel.IsNoData(s.Data) &&
		len(s.Assets) == len(f.assets) && len(s.Backends) == len(f.assets)
	for i := 0; short && i < len(f.assets); i++ {
		short = s.Assets[i].Equal(f.assets[i]) && s.Backends[i] == 0
	}
	if !short {
		// states of virtual channels: the file's assets, no app, no data, another id
		virt := channel.IsNoApp(s.App) && channel.IsNoData(s.Data) && len(s.Assets) == len(f.assets) && len(s.Backends) == len(f.assets)
		for i := 0; virt && i < len(f.assets); i++ {
			virt = s.Assets[i].Equal(f.assets[i]) && s.Backends[i] == 0
		}
		if virt {
			return hx.App("V0", f.idTerm(s.ID), hx.N(s.Version), balsTerm(s.Balances), hx.ListOf(s.Locked, f.subAllocTerm), hx.Bool(s.IsFinal))
		}
		return cv.State(s)
	}
	return hx.App("S0", hx.N(s.Version), balsTerm(s.Balances), hx.ListOf(s.Locked, f.subAllocTerm), hx.Bool(s.IsFinal))
}

func (f *fctx) st(s *channel.State) int {
	t := f.stateTerm(s)
	if i, ok := f.stIdx[t]; ok {
		return i
	}
	f.stIdx[t] = len(f.sts)
	f.sts = append(f.sts, t)
	return len(f.sts) - 1
}

// sign signs s with acc and registers the token of the signature.
func (f *fctx) sign(acc *simwallet.Account, s *channel.State) wallet.Sig {
	sig, err := channel.Sign(acc, s, 0)
	if err != nil {
		return nil
	}
	f.sigs[string(sig)] = hx.App("TSig", hx.N(f.tokOf(acc.Address())), hx.Nat(f.st(s)))
	return sig
}

// tok renders a signature: signatures the harness made are known; a signature made by the honest
// client is recognised by verifying it against the states of the table's candidates.
func (f *fctx) tok(sig wallet.Sig, hint *channel.State) string {
	if sig == nil {
		return "None"
	}
	if t, ok := f.sigs[string(sig)]; ok {
		return "(Some " + t + ")"
	}
	if hint != nil {
		if ok, err := channel.Verify(f.h.Acc.Address(), hint, sig); err == nil && ok {
			t := hx.App("TSig", hx.N(f.tokOf(f.h.Acc.Address())), hx.Nat(f.st(hint)))
			f.sigs[string(sig)] = t
			return "(Some " + t + ")"
		}
		if ok, err := channel.Verify(f.p.Acc.Address(), hint, sig); err == nil && ok {
			t := hx.App("TSig", hx.N(f.tokOf(f.p.Acc.Address())), hx.Nat(f.st(hint)))
			f.sigs[string(sig)] = t
			return "(Some " + t + ")"
		}
	}
	return "(Some (TJunk 0))"
}

func (f *fctx) tokPlain(sig wallet.Sig, hint *channel.State) string {
	t := f.tok(sig, hint)
	if t == "None" {
		return "(TJunk 1)"
	}
	return strings.TrimSuffix(strings.TrimPrefix(t, "(Some "), ")")
}

func (f *fctx) txTerm(t channel.Transaction) string {
	if t.State == nil {
		return "None"
	}
	sigs := make([]string, len(t.Sigs))
	for i, s := range t.Sigs {
		sigs[i] = f.tok(s, t.State)
	}
	return "(Some (" + hx.Nat(f.st(t.State)) + ", " + hx.List(sigs) + "))"
}

type snap struct {
	Phase   channel.Phase
	Staging channel.Transaction
	Current channel.Transaction
}

func (f *fctx) snapshot() snap {
	ph, st, cu := f.ch.VerifSnapshot()
	return snap{ph, st, cu}
}

func (f *fctx) snapTerm(s snap) string {
	return "(" + hx.N(uint64(s.Phase)) + ", " + f.txTerm(s.Staging) + ", " + f.txTerm(s.Current) + ")"
}

func (f *fctx) paramsTerm() string {
	id := f.params.ID()
	parts := make([]string, len(f.params.Parts))
	for i, p := range f.params.Parts {
		parts[i] = hx.N(f.tokOf(p[0]))
	}
	kind := "None"
	if f.kind == "pay" {
		kind = "(Some KPay)"
	}
	return hx.App("mkMP", hx.Hex(id[:]), hx.List(parts), cv.AppDef(f.params.App), kind)
}

func (f *fctx) iceptTerm(ic icept) string {
	return hx.App("mkIc", f.idTerm(ic.ID), balsTerm(ic.Bals), hx.Bool(ic.Awaited))
}

// header: the file-level definitions the short forms refer to.
func (f *fctx) header() string {
	id := f.params.ID()
	var sb strings.Builder
	fmt.Fprintf(&sb, "Definition ids := [\n%s\n].\nDefinition I (n : nat) := nth n ids [].\n", strings.Join(f.ids, ";\n"))
	fmt.Fprintf(&sb, "Definition S0 := mkS %s %s %s %s.\n", hx.Hex(id[:]),
		hx.ListOf(f.assets, func(channel.Asset) string { return "0%N" }),
		hx.ListOf(f.assets, func(a channel.Asset) string { return hx.N(cv.AssetID(a)) }), cv.AppDef(f.params.App))
	fmt.Fprintf(&sb, "Definition V0 (id : bytes) := mkS id %s %s None.\n",
		hx.ListOf(f.assets, func(channel.Asset) string { return "0%N" }),
		hx.ListOf(f.assets, func(a channel.Asset) string { return hx.N(cv.AssetID(a)) }))
	return sb.String()
}

// ---------- (re)creating the honest client and its channel ----------

func newFctx(seed int64) *fctx {
	r := rand.New(rand.NewSource(seed))
	f := &fctx{r: r, g: &cv.Gen{R: r}, stIdx: map[string]int{}, idIdx: map[string]int{}, sigs: map[string]string{}, atok: map[string]uint64{},
		keys: map[string]*simwallet.Account{}}
	f.ntok = 2 // tokens 1, 2: the channel participants; virtual channel participants from 3
	return f
}

func (f *fctx) app() channel.App {
	if f.kind == "pay" {
		return cv.PayApp
	}
	return channel.NoApp()
}

// freshClient replaces the honest client (same keys, same wire address) by a new instance on a new bus.
func (f *fctx) freshClient() {
	bus := wire.NewLocalBus()
	old := f.h
	h := newHonestWith(f.r, bus, old)
	f.h = h
	f.ob = newOutbox(bus, f.p.Addr)
	f.ob.ack = f.ackProbe
	f.burnt = false
}

// restore puts a channel with the file's parameters into the honest client, in the given state.
func (f *fctx) restore(phase channel.Phase, staging, current channel.Transaction) {
	if f.h == nil || f.burnt || f.ch != nil {
		f.freshClient()
	}
	peers := make([]map[wallet.BackendID]wire.Address, 2)
	peers[f.me] = f.h.Addr
	peers[f.peer()] = f.p.Addr
	src := &source{idx: channel.Index(f.me), params: f.params, staging: staging, current: current, phase: phase}
	ch, err := f.h.C.VerifRestoreChannel(src, nil, peers)
	if err != nil {
		panic(err)
	}
	f.ch = ch
	f.real = false
}

func (f *fctx) fullTx(s *channel.State) channel.Transaction {
	t := channel.Transaction{State: s, Sigs: make([]wallet.Sig, 2)}
	t.Sigs[f.me] = f.sign(f.h.Acc, s)
	t.Sigs[f.peer()] = f.sign(f.p.Acc, s)
	return t
}

// ---------- state generation ----------

func (f *fctx) smallBal() *big.Int {
	switch f.r.Intn(8) {
	case 0:
		return big.NewInt(0)
	case 1:
		return new(big.Int).SetUint64(f.r.Uint64())
	case 2:
		b := make([]byte, 9+f.r.Intn(20))
		f.r.Read(b)
		return new(big.Int).SetBytes(b)
	default:
		return big.NewInt(int64(10 + f.r.Intn(200)))
	}
}

func (f *fctx) randSubAlloc() channel.SubAlloc {
	bals := make([]channel.Bal, len(f.assets))
	for i := range bals {
		bals[i] = big.NewInt(int64(1 + f.r.Intn(30)))
	}
	var im []channel.Index
	switch f.r.Intn(3) {
	case 0:
		im = []channel.Index{0, 1}
	case 1:
		im = []channel.Index{1, 0}
	}
	return *channel.NewSubAlloc(f.g.ID(), bals, im)
}

func (f *fctx) data() channel.Data { return channel.NoData() }

// genState returns a valid state of the channel with nl locked sub-allocations.
func (f *fctx) genState(nl int, final bool) *channel.State {
	a := channel.Allocation{Assets: f.assets, Backends: make([]wallet.BackendID, len(f.assets))}
	a.Balances = make(channel.Balances, len(f.assets))
	for i := range a.Balances {
		a.Balances[i] = []channel.Bal{f.smallBal(), f.smallBal()}
	}
	a.Locked = make([]channel.SubAlloc, 0, nl)
	for i := 0; i < nl; i++ {
		a.Locked = append(a.Locked, f.randSubAlloc())
	}
	return &channel.State{ID: f.params.ID(), Version: f.r.Uint64() >> uint(8+f.r.Intn(56)), App: f.app(), Data: f.data(),
		Allocation: a, IsFinal: final}
}

// pay returns a successor of cur in which actor pays the other participant (valid for the payment app).
func (f *fctx) pay(cur *channel.State, actor int, final bool) *channel.State {
	s := cur.Clone()
	s.Version = cur.Version + 1
	s.IsFinal = final
	for i := range s.Balances {
		b := s.Balances[i][actor]
		if b.Sign() > 0 {
			amt := new(big.Int).Rand(f.r, b)
			amt.Add(amt, big.NewInt(1))
			s.Balances[i][actor] = new(big.Int).Sub(b, amt)
			s.Balances[i][actor^1] = new(big.Int).Add(s.Balances[i][actor^1], amt)
		}
	}
	return s
}

// ---------- serializer round trip: only decodable messages reach the handlers ----------

var ser = perunio.Serializer()

func roundTrip(e *wire.Envelope) (out *wire.Envelope, ok bool) {
	defer func() {
		if r := recover(); r != nil {
			out, ok = nil, false
		}
	}()
	var buf bytes.Buffer
	if err := ser.Encode(&buf, e); err != nil {
		return nil, false
	}
	d, err := ser.Decode(&buf)
	if err != nil {
		return nil, false
	}
	return d, true
}

// ---------- running a handler under recover with a watchdog ----------

func syncCall(fn func(), d time.Duration) (outcome string, pv interface{}) {
	done := make(chan interface{}, 1)
	go func() {
		defer func() { done <- recover() }()
		fn()
	}()
	t := time.NewTimer(d)
	defer t.Stop()
	select {
	case v := <-done:
		if v != nil {
			return "PANIC", v
		}
		return "RET", nil
	case <-t.C:
		return "HUNG", nil
	}
}

// ---------- the probe: an honest local update after the adversarial message ----------

// ackProbe is called by the outbox for every envelope the honest client sends to the puppet: the
// puppet countersigns the honest client's own proposals (only while a probe is running).
func (f *fctx) ackProbe(e *wire.Envelope) {
	m, ok := e.Msg.(*client.ChannelUpdateMsg)
	if !ok || !f.ob.probing() {
		return
	}
	sig, err := channel.Sign(f.p.Acc, m.State, 0)
	if err != nil {
		return
	}
	acc := &client.ChannelUpdateAccMsg{ChannelID: m.State.ID, Version: m.State.Version, Sig: sig}
	bus, from, to := f.h.Bus, f.p.Addr, f.h.Addr
	go func() {
		ctx, cancel := context.WithTimeout(context.Background(), 2*time.Second)
		defer cancel()
		_ = bus.Publish(ctx, &wire.Envelope{Sender: from, Recipient: to, Msg: acc})
	}()
}

// probe lets the honest client propose an update of its own: "ok" (completed), "refused" (an error in
// bounded time that is not about the machine mutex), "hung" (could not get the machine mutex / no end).
func (f *fctx) probe(d time.Duration) string {
	f.ob.setProbing(true)
	defer f.ob.setProbing(false)
	res := make(chan error, 1)
	me := f.me
	go func() {
		defer func() {
			if r := recover(); r != nil {
				res <- fmt.Errorf("panic: %v", r)
			}
		}()
		ctx, cancel := context.WithTimeout(context.Background(), d)
		defer cancel()
		res <- f.ch.Update(ctx, func(s *channel.State) {
			for i := range s.Balances {
				if s.Balances[i][me].Sign() > 0 {
					s.Balances[i][me] = new(big.Int).Sub(s.Balances[i][me], big.NewInt(1))
					s.Balances[i][me^1] = new(big.Int).Add(s.Balances[i][me^1], big.NewInt(1))
				}
			}
		})
	}()
	select {
	case err := <-res:
		switch {
		case err == nil:
			return "ok"
		case strings.Contains(err.Error(), "locking machine mutex"):
			return "hung"
		case strings.Contains(err.Error(), "panic:"):
			return "panic"
		default:
			return "refused"
		}
	case <-time.After(d + 3*time.Second):
		return "hung"
	}
}
