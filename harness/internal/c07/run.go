package c07

import (
	"bytes"
	"context"
	"fmt"
	"math/big"
	"math/rand"
	"os"
	"path/filepath"
	"sort"
	"strings"
	"sync"
	"time"

	"perun.network/go-perun/channel"
	"perun.network/go-perun/client"
	"perun.network/go-perun/wallet"
	"perun.network/go-perun/wire"
	"verif/harness/internal/cv"
	"verif/harness/internal/hx"
)

func payApp() channel.App { return cv.PayApp }

const (
	fastWatchdog = 6 * time.Second  // handlers that do not wait for anything return in microseconds
	slowWatchdog = 15 * time.Second // virtual-channel handlers wait up to 10 s for the twin proposal
	probeTimeout = 1500 * time.Millisecond
	syncTimeout  = 1500 * time.Millisecond // syncReplyTimeout for the run (10 s in production)
)

// ---------- observation of one handled message ----------

type obs struct {
	dec     int // 0 Drop 1 AskUser 2 AutoAccept 3 Reject 4 Reply 5 Panic 6 Block
	sent    []int
	free    bool
	after   snap
	accSig  wallet.Sig
	outcome string
	pv      string
	asked   int
	probe   string
	signed  bool // the honest client put its signature under the proposed state
	waited  bool // the handler took as long as the state watcher's timeout (10 s)
}

type event struct {
	class, outcome, key string
	trivial             bool
}

type shard struct {
	f      *fctx
	prop   string
	cases  []string
	index  []string
	events []event
	fails  []hx.Failure // Case is shard-local until merged
	sample []interface{}
	hung   int
}

func (sh *shard) count(class, outcome, key string) {
	sh.events = append(sh.events, event{class, outcome, key, false})
}

func (sh *shard) fail(site, class, what string, replay interface{}) {
	sh.fails = append(sh.fails, hx.Failure{Site: site, InputClass: class, What: what, Case: len(sh.cases), Replay: replay})
}

// ---------- terms ----------

func (f *fctx) updTerm(u *client.ChannelUpdateMsg) string {
	return hx.App("mkRU", hx.Nat(f.st(u.State)), hx.N(uint64(u.ActorIdx)), f.tokPlain(u.Sig, nil))
}

func (f *fctx) signedTerm(ss channel.SignedState) string {
	id := ss.Params.ID()
	parts := make([]string, len(ss.Params.Parts))
	for i, p := range ss.Params.Parts {
		parts[i] = hx.N(f.tokOf(p[0]))
	}
	sigs := make([]string, len(ss.Sigs))
	for i, s := range ss.Sigs {
		if s == nil {
			sigs[i] = "None"
		} else {
			sigs[i] = "(Some " + f.tokPlain(s, nil) + ")"
		}
	}
	return hx.App("mkRSg", f.idTerm(id), hx.List(parts), hx.Bool(ss.Params.VirtualChannel), hx.Nat(f.st(ss.State)), hx.List(sigs))
}

func imapTerm(m []channel.Index) string {
	return hx.ListOf(m, func(i channel.Index) string { return hx.N(uint64(i)) })
}

func (f *fctx) reqTerm(m client.ChannelUpdateProposal) string {
	switch x := m.(type) {
	case *client.ChannelUpdateMsg:
		return hx.App("RRUpdate", f.updTerm(x))
	case *client.VirtualChannelFundingProposalMsg:
		return hx.App("RRVFund", f.updTerm(&x.ChannelUpdateMsg), f.signedTerm(x.Initial), imapTerm(x.IndexMap))
	case *client.VirtualChannelSettlementProposalMsg:
		return hx.App("RRVSettle", f.updTerm(&x.ChannelUpdateMsg), f.signedTerm(x.Final))
	}
	panic("unknown request")
}

func (f *fctx) ctxTerm(s snap, fund, settle []icept, busy bool) string {
	f.lastSnap = f.snapTerm(s)
	return hx.App("RC", hx.N(uint64(f.me)), f.lastSnap, hx.ListOf(fund, f.iceptTerm), hx.ListOf(settle, f.iceptTerm), hx.Bool(busy))
}

func (f *fctx) obsTerm(o obs, st *channel.State) string {
	sig := "None"
	if o.accSig != nil {
		sig = "(Some " + f.tokPlain(o.accSig, st) + ")"
	}
	after := f.snapTerm(o.after)
	if after == f.lastSnap {
		after = "None" // unchanged
	} else {
		after = "(Some " + after + ")"
	}
	return hx.App("mkObs", hx.N(uint64(o.dec)), hx.ListOf(o.sent, func(i int) string { return hx.N(uint64(i)) }),
		hx.Bool(o.free), after, sig, hx.Bool(o.waited))
}

// ---------- property oracles (from the property texts, independent of model and code) ----------

func subAllocEq(a, b channel.SubAlloc) bool {
	if a.ID != b.ID || len(a.Bals) != len(b.Bals) || len(a.IndexMap) != len(b.IndexMap) {
		return false
	}
	for i := range a.Bals {
		if a.Bals[i].Cmp(b.Bals[i]) != 0 {
			return false
		}
	}
	for i := range a.IndexMap {
		if a.IndexMap[i] != b.IndexMap[i] {
			return false
		}
	}
	return true
}

func lockedEq(a, b []channel.SubAlloc) bool {
	if len(a) != len(b) {
		return false
	}
	for i := range a {
		if !subAllocEq(a[i], b[i]) {
			return false
		}
	}
	return true
}

func balsEq(a, b channel.Balances) bool {
	if len(a) != len(b) {
		return false
	}
	for i := range a {
		if len(a[i]) != len(b[i]) {
			return false
		}
		for j := range a[i] {
			if a[i][j].Cmp(b[i][j]) != 0 {
				return false
			}
		}
	}
	return true
}

func sameShape(a, b channel.Balances) bool {
	if len(a) != len(b) {
		return false
	}
	for i := range a {
		if len(a[i]) != len(b[i]) {
			return false
		}
	}
	return true
}

// goodSuccessor: the conjunction of C02 for a two-party channel.
func (f *fctx) goodSuccessor(cur, to *channel.State, actor int) bool {
	if to.ID != f.params.ID() || channel.AppShouldEqual(f.params.App, to.App) != nil {
		return false
	}
	if cur.IsFinal || to.Version != cur.Version+1 {
		return false
	}
	if len(to.Assets) == 0 || len(to.Assets) != len(cur.Assets) || len(to.Balances) != len(to.Assets) {
		return false
	}
	for i := range to.Assets {
		if !to.Assets[i].Equal(cur.Assets[i]) {
			return false
		}
	}
	for i := range to.Balances {
		if len(to.Balances[i]) != 2 {
			return false
		}
		for _, b := range to.Balances[i] {
			if b.Sign() < 0 {
				return false
			}
		}
	}
	for _, l := range to.Locked {
		if len(l.Bals) != len(to.Assets) {
			return false
		}
		for _, b := range l.Bals {
			if b.Sign() < 0 {
				return false
			}
		}
	}
	total := func(s *channel.State, i int) *big.Int {
		t := new(big.Int)
		for _, b := range s.Balances[i] {
			t.Add(t, b)
		}
		for _, l := range s.Locked {
			t.Add(t, l.Bals[i])
		}
		return t
	}
	for i := range to.Assets {
		if total(cur, i).Cmp(total(to, i)) != 0 {
			return false
		}
	}
	if actor < 0 || actor >= 2 {
		return false
	}
	if f.kind == "pay" {
		if !channel.IsNoData(to.Data) {
			return false
		}
		for i := range cur.Balances {
			for j := range cur.Balances[i] {
				if j == actor && to.Balances[i][j].Cmp(cur.Balances[i][j]) > 0 {
					return false
				}
				if j != actor && to.Balances[i][j].Cmp(cur.Balances[i][j]) < 0 {
					return false
				}
			}
		}
	}
	return true
}

// mapped: the balances of a virtual channel seen from the parent: participant imap[p] of the parent
// stands for participant p of the virtual channel (its balance there is the sum over all such p).
func mapped(b channel.Balances, np int, imap []channel.Index) (channel.Balances, bool) {
	for _, q := range imap {
		if int(q) >= np {
			return nil, false
		}
	}
	out := make(channel.Balances, len(b))
	for a := range b {
		if len(b[a]) != len(imap) {
			return nil, false
		}
		out[a] = make([]channel.Bal, np)
		for q := range out[a] {
			out[a][q] = big.NewInt(0)
		}
		for p, q := range imap {
			out[a][q] = new(big.Int).Add(out[a][q], b[a][p])
		}
	}
	return out, true
}

// exactFunding: the locked list is the old one plus exactly {id, sums, imap}; every participant's
// balance drops by exactly d.
func exactFunding(cur, to *channel.State, id channel.ID, d channel.Balances, imap []channel.Index) bool {
	if imap == nil {
		imap = []channel.Index{}
	}
	if !sameShape(cur.Balances, d) {
		return false
	}
	want := append(append([]channel.SubAlloc{}, cur.Locked...), channel.SubAlloc{ID: id, Bals: d.Sum(), IndexMap: imap})
	return lockedEq(want, to.Locked) && balsEq(balsOp(cur.Balances, d, true), to.Balances)
}

// exactSettlement: the locked list is the old one minus exactly the entry of id; every participant's
// balance rises by exactly d.
func exactSettlement(cur, to *channel.State, id channel.ID, d channel.Balances) bool {
	if !sameShape(cur.Balances, d) {
		return false
	}
	k := -1
	for i := range cur.Locked {
		if cur.Locked[i].ID == id {
			k = i
			break
		}
	}
	if k < 0 {
		return false
	}
	want := append(append([]channel.SubAlloc{}, cur.Locked[:k]...), cur.Locked[k+1:]...)
	return lockedEq(want, to.Locked) && balsEq(balsOp(cur.Balances, d, false), to.Balances)
}

// acceptableC07: may the honest client countersign m in state cur? asked: the user took the decision
// (ordinary update); otherwise the update was accepted automatically.
func (f *fctx) acceptableC07(cur *channel.State, m client.ChannelUpdateProposal, asked bool, tc tcase) (bool, string) {
	b := m.Base()
	if ok, err := channel.Verify(f.p.Acc.Address(), b.State, b.Sig); err != nil || !ok {
		return false, "the peer's signature does not verify for the proposed state"
	}
	if !f.goodSuccessor(cur, b.State, int(b.ActorIdx)) {
		return false, "the proposed state is not a valid successor of the current state"
	}
	if asked {
		if int(b.ActorIdx) != f.peer() {
			return false, "ordinary update whose actor is not the sender"
		}
		if !lockedEq(cur.Locked, b.State.Locked) {
			return false, "ordinary update that changes the locked sub-allocations"
		}
		return true, ""
	}
	switch x := m.(type) {
	case *client.ChannelUpdateMsg:
		for _, ic := range tc.fund {
			if _, before := cur.SubAlloc(ic.ID); !before && exactFunding(cur, b.State, ic.ID, ic.Bals, nil) {
				return true, ""
			}
		}
		for _, ic := range tc.settle {
			if exactSettlement(cur, b.State, ic.ID, ic.Bals) {
				return true, ""
			}
		}
		return false, "automatically accepted update is not exactly the funding or settlement of a registered sub-channel"
	case *client.VirtualChannelFundingProposalMsg:
		id := x.Initial.Params.ID()
		d, ok := mapped(x.Initial.State.Balances, 2, x.IndexMap)
		if _, before := cur.SubAlloc(id); ok && !before && exactFunding(cur, b.State, id, d, x.IndexMap) {
			return true, ""
		}
		return false, "automatically accepted virtual funding is not exactly the funding of that channel"
	case *client.VirtualChannelSettlementProposalMsg:
		id := x.Final.Params.ID()
		sa, before := cur.SubAlloc(id)
		if before {
			if d, ok := mapped(x.Final.State.Balances, 2, sa.IndexMap); ok && exactSettlement(cur, b.State, id, d) {
				return true, ""
			}
		}
		return false, "automatically accepted virtual settlement is not exactly the settlement of that channel"
	}
	return false, "unknown message"
}

// ---------- C01 on the client's machine: the current transaction is never touched by a handler ----------

func txBytes(t channel.Transaction) string {
	if t.State == nil {
		return "nil"
	}
	var sb strings.Builder
	var buf bytes.Buffer
	if err := t.State.Encode(&buf); err != nil {
		sb.WriteString("unencodable:" + cv.State(t.State))
	} else {
		sb.Write(buf.Bytes())
	}
	for _, s := range t.Sigs {
		fmt.Fprintf(&sb, "|%x", []byte(s))
	}
	return sb.String()
}

// currentIntact: after a handler has returned, the channel's current transaction (state encoding and
// signatures) is byte-identical to the one before, unless the client countersigned `proposed` and the
// update was completed (then it is exactly the proposed state); and in every case the current state
// verifies under all its signatures.
func (f *fctx) currentIntact(before, after snap, proposed *channel.State, signed bool) (bool, string) {
	if after.Current.State != nil {
		for i, sig := range after.Current.Sigs {
			if i >= len(f.params.Parts) {
				return false, "more signatures than participants on the current state"
			}
			if ok, err := channel.Verify(f.params.Parts[i][0], after.Current.State, sig); err != nil || !ok {
				return false, fmt.Sprintf("signature %d of the current transaction does not verify for the current state (a state nobody signed)", i)
			}
		}
	}
	if txBytes(before.Current) == txBytes(after.Current) {
		return true, ""
	}
	if signed && proposed != nil && after.Current.State != nil {
		var a, b bytes.Buffer
		if after.Current.State.Encode(&a) == nil && proposed.Encode(&b) == nil && bytes.Equal(a.Bytes(), b.Bytes()) {
			return true, ""
		}
	}
	return false, "the current transaction changed although no update was countersigned and completed"
}

// ---------- one update-type message ----------

func (sh *shard) execUpd(tc tcase, stranger bool, doProbe bool) {
	f := sh.f
	sender := f.p.Addr
	if stranger {
		sender = wireAddr(f.r)
	}
	env, ok := roundTrip(&wire.Envelope{Sender: sender, Recipient: f.h.Addr, Msg: tc.msg})
	if !ok {
		sh.count(tc.class, "undecodable", tc.class+"/undecodable")
		return
	}
	msg := env.Msg.(client.ChannelUpdateProposal)
	before := f.snapshot()
	known := msg.Base().State.ID == f.params.ID()
	cur := before.Current.State

	// validators of the virtual-channel proposals, on the quiescent channel
	if _, isUpd := msg.(*client.ChannelUpdateMsg); !isUpd && known && cur != nil {
		sh.execValidate(tc, msg, before)
	}

	for _, ic := range tc.fund {
		if !ic.Pre {
			f.ch.VerifRegisterSubChannelFunding(ic.ID, ic.Bals)
		}
	}
	for _, ic := range tc.settle {
		if !ic.Pre {
			f.ch.VerifRegisterSubChannelSettlement(ic.ID, ic.Bals)
		}
	}
	actx, cancel := context.WithCancel(context.Background())
	var wg sync.WaitGroup
	await := func(ic icept, funding bool) {
		if !ic.Awaited {
			return
		}
		wg.Add(1)
		go func() {
			defer wg.Done()
			defer func() { _ = recover() }()
			if funding {
				_ = f.ch.VerifAwaitSubChannelFunding(actx, ic.ID)
			} else {
				_ = f.ch.VerifAwaitSubChannelWithdrawal(actx, ic.ID)
			}
		}()
	}
	for _, ic := range tc.fund {
		await(ic, true)
	}
	for _, ic := range tc.settle {
		await(ic, false)
	}
	v := vReject
	if tc.accept {
		v = vAccept
	}
	f.h.resetAsked(v)
	f.ob.take()
	f.h.PR.take()
	wd := fastWatchdog
	if _, isUpd := msg.(*client.ChannelUpdateMsg); !isUpd {
		wd = slowWatchdog
	}
	if tc.wd > 0 {
		wd = tc.wd
	}
	var o obs
	var pv interface{}
	t0 := time.Now()
	o.outcome, pv = syncCall(func() { f.h.C.VerifHandleChannelUpdate(f.h, sender, msg) }, wd)
	took := time.Since(t0)
	o.waited = took > 5*time.Second
	if pv != nil {
		o.pv = fmt.Sprint(pv)
	}
	cancel()
	waited := make(chan struct{})
	go func() { wg.Wait(); close(waited) }()
	select {
	case <-waited:
	case <-time.After(5 * time.Second):
	}
	// interceptors nobody awaited are released like a late awaiter would do it
	if o.outcome == "RET" {
		done, c2 := context.WithCancel(context.Background())
		c2()
		for _, ic := range tc.fund {
			if !ic.Awaited && !ic.Keep {
				_ = f.ch.VerifAwaitSubChannelFunding(done, ic.ID)
			}
		}
		for _, ic := range tc.settle {
			if !ic.Awaited && !ic.Keep {
				_ = f.ch.VerifAwaitSubChannelWithdrawal(done, ic.ID)
			}
		}
	}
	o.asked = f.h.wasAsked()
	for _, e := range f.ob.take() {
		switch x := e.Msg.(type) {
		case *client.ChannelUpdateAccMsg:
			o.sent = append(o.sent, 0)
			o.accSig = x.Sig
		case *client.ChannelUpdateRejMsg:
			o.sent = append(o.sent, 1)
		}
	}
	pevs := f.h.PR.take()
	o.free = f.ch.VerifMachineMutexFree()
	o.after = f.snapshot()
	hasAcc, hasRej := false, false
	for _, s := range o.sent {
		hasAcc = hasAcc || s == 0
		hasRej = hasRej || s == 1
	}
	switch {
	case o.outcome == "PANIC":
		o.dec = 5
	case o.outcome == "HUNG":
		o.dec = 6
	case o.asked > 0:
		o.dec = 1
	case hasAcc:
		o.dec = 2
	case hasRej:
		o.dec = 3
	default:
		o.dec = 0
	}
	if o.dec == 5 || o.dec == 6 || !o.free {
		f.burnt = true
	}
	// did the honest client sign the proposed state?
	if o.accSig != nil {
		if ok, err := channel.Verify(f.h.Acc.Address(), msg.Base().State, o.accSig); err == nil && ok {
			o.signed = true
		}
	}
	for _, e := range pevs {
		if e.Kind == "SigAdded" && int(e.Idx) == f.me && e.State != nil && cv.State(e.State) == cv.State(msg.Base().State) {
			o.signed = true
		}
	}
	if doProbe && (!f.burnt || sh.hung < 1) {
		if f.burnt {
			sh.hung++
		}
		o.probe = f.probe(probeTimeout)
	}

	replay := map[string]interface{}{"class": tc.class, "message": cv.Msg(msg), "current": stateOrNil(cur), "phase": before.Phase.String(),
		"funding_interceptors": hx.ListOf(tc.fund, rawIcept), "settlement_interceptors": hx.ListOf(tc.settle, rawIcept),
		"outcome": o.outcome, "panic": o.pv, "took_ms": took.Milliseconds(), "probe": o.probe}
	// --- C01 on the client's machine (both properties)
	if ok, why := f.currentIntact(before, o.after, msg.Base().State, o.signed); !ok && o.dec != 5 {
		sh.fail(strings.SplitN(tc.site, "/", 2)[0], "state-corrupted", "handling the request corrupted the channel's current state: "+why, replay)
		f.burnt = true
	}
	// --- C07
	if o.signed && cur != nil {
		if ok, why := f.acceptableC07(cur, msg, o.asked > 0, tc); !ok {
			if sh.prop == "C07" {
				sh.fail(tc.site, tc.class, "the honest client countersigned an update that is unsafe for it: "+why, replay)
			}
		}
	}
	// --- C12
	if sh.prop == "C12" {
		switch {
		case o.dec == 5:
			sh.fail(tc.site, tc.class, "the request handler panicked: "+o.pv, replay)
		case o.dec == 6:
			cls := tc.class
			if strings.HasSuffix(cls, "-unawaited") {
				cls = "interceptor-unawaited"
			}
			sh.fail(tc.site, cls, fmt.Sprintf("the request handler did not return within %v and keeps the machine mutex", wd), replay)
		case !o.free:
			sh.fail(tc.site, tc.class, "the handler returned but the machine mutex is still held", replay)
		case len(o.sent) > 1:
			sh.fail(tc.site, tc.class, "the request was answered more than once", replay)
		case o.probe == "hung" || o.probe == "panic":
			sh.fail(tc.site, tc.class, "after the message an honest update of the client's own "+o.probe, replay)
		}
	}
	decName := []string{"Drop", "AskUser", "AutoAccept", "Reject", "Reply", "Panic", "Block"}[o.dec]
	sh.count(tc.class, decName, fmt.Sprintf("%s/%s/%v/%s/%v", tc.class, decName, o.sent, before.Phase, o.signed))
	if len(sh.sample) < 2 && o.dec != 0 {
		sh.sample = append(sh.sample, replay)
	}
	term := hx.App("HUpd", f.ctxTerm(before, tc.fund, tc.settle, false), hx.Bool(known), f.reqTerm(msg), hx.Bool(tc.accept),
		f.obsTerm(o, msg.Base().State))
	sh.cases = append(sh.cases, term)
	sh.index = append(sh.index, tc.class)
}

func rawIcept(ic icept) string {
	return hx.App("mkIc", hx.Hex(ic.ID[:]), cv.Bals(ic.Bals), hx.Bool(ic.Awaited))
}

func stateOrNil(s *channel.State) string {
	if s == nil {
		return "nil"
	}
	return cv.State(s)
}

// execValidate: validateVirtualChannelFundingProposal / ...SettlementProposal on their own.
func (sh *shard) execValidate(tc tcase, msg client.ChannelUpdateProposal, before snap) {
	f := sh.f
	var err error
	out, pv := syncCall(func() {
		switch x := msg.(type) {
		case *client.VirtualChannelFundingProposalMsg:
			err = f.h.C.VerifValidateVirtualChannelFundingProposal(f.ch, x)
		case *client.VirtualChannelSettlementProposalMsg:
			err = f.h.C.VerifValidateVirtualChannelSettlementProposal(f.ch, x)
		}
	}, fastWatchdog)
	code := 0
	switch {
	case out != "RET":
		code = 2
	case err != nil:
		code = 1
	}
	cur := before.Current.State
	replay := map[string]interface{}{"class": tc.class, "message": cv.Msg(msg), "current": cv.State(cur), "panic": fmt.Sprint(pv)}
	if code == 2 && sh.prop == "C12" {
		sh.fail("client.validateVirtualChannelProposal", tc.class, "the validator of a virtual-channel proposal panicked: "+fmt.Sprint(pv), replay)
	}
	if code == 0 && sh.prop == "C07" {
		// validation is all that stands between the proposal and the automatic acceptance (the twin
		// proposal of the other parent is supplied by the parties of the virtual channel)
		good := f.goodSuccessor(cur, msg.Base().State, int(msg.Base().ActorIdx))
		if ok, why := f.acceptableC07(cur, msg, false, tc); good && !ok {
			sh.fail("client.validateVirtualChannelProposal", tc.class, "validation passed for a proposal the client must not countersign: "+why, replay)
		}
	}
	if ok, why := f.currentIntact(before, f.snapshot(), nil, false); !ok && code != 2 {
		sh.fail("client.validateVirtualChannelProposal", "state-corrupted", "validating the proposal corrupted the channel's current state: "+why, replay)
		f.burnt = true
	}
	sh.count(tc.class+"/validate", []string{"ok", "error", "panic"}[code], tc.class+"/validate/"+fmt.Sprint(code))
	sh.cases = append(sh.cases, hx.App("HVal", f.ctxTerm(before, nil, nil, false), f.reqTerm(msg), hx.N(uint64(code))))
	sh.index = append(sh.index, tc.class+"/validate")
}

// ---------- an interceptor registered earlier: the parent advances before the intercepted update ----------

// execStale registers a funding or settlement interceptor, lets the parent channel advance by one or
// two accepted updates (ordinary payments, the funding of another sub-channel) while the interceptor
// stays registered, and then delivers the intercepted update built for the state at registration, for
// the state at arrival, or a mixture. The update must be judged against the parent state at arrival.
func (sh *shard) execStale(doProbe bool) {
	f := sh.f
	r := f.r
	peer := f.peer()
	f.actingContext(1 + r.Intn(2))
	cur0 := f.snapshot().Current.State
	funding := r.Intn(2) == 0
	ic := icept{Pre: true, Keep: true}
	var k0 int
	if funding {
		ic.ID, ic.Bals = f.g.ID(), f.part(cur0.Balances)
		f.ch.VerifRegisterSubChannelFunding(ic.ID, ic.Bals)
	} else {
		k0 = r.Intn(len(cur0.Locked))
		ic.ID, ic.Bals = cur0.Locked[k0].ID, f.split(cur0.Locked[k0].Bals)
		f.ch.VerifRegisterSubChannelSettlement(ic.ID, ic.Bals)
	}
	withIc := func(tc *tcase, aw, keep bool) {
		c := ic
		c.Awaited, c.Keep = aw, keep
		if funding {
			tc.fund = append(tc.fund, c)
		} else {
			tc.settle = append(tc.settle, c)
		}
	}
	expect := func(cur *channel.State) *channel.State {
		if funding {
			return fundState(cur, ic.ID, ic.Bals, nil)
		}
		return settleState(cur, ic.ID, ic.Bals)
	}
	steps := 1 + r.Intn(2)
	for i := 0; i < steps; i++ {
		cur := f.snapshot().Current.State
		var tc tcase
		if r.Intn(3) == 0 {
			// another sub-channel gets funded in between: the locked list changes
			id, b := f.g.ID(), f.part(cur.Balances)
			m := f.signedUpd(fundState(cur, id, b, nil), peer)
			tc = tcase{class: "st-step-fund-other", accept: true, msg: &m, fund: []icept{{ID: id, Bals: b, Awaited: true}},
				site: "client.Channel.registerSubChannelFunding"}
		} else {
			m := f.signedUpd(f.pay(cur, peer, false), peer)
			tc = tcase{class: "st-step-pay", accept: true, msg: &m, site: "client.Channel.handleUpdateReq"}
		}
		withIc(&tc, false, true)
		sh.execUpd(tc, false, false)
		if f.burnt {
			return
		}
	}
	cur := f.snapshot().Current.State
	old := expect(cur0)
	old.Version = cur.Version + 1
	fresh := expect(cur)
	variants := []string{"old", "old", "new", "bals-old-locked-new", "bals-new-locked-old"}
	v := variants[r.Intn(len(variants))]
	var s *channel.State
	switch v {
	case "old":
		s = old
	case "new":
		s = fresh
	case "bals-old-locked-new":
		s = fresh.Clone()
		s.Balances = old.Balances.Clone()
	default:
		s = fresh.Clone()
		s.Locked = old.Clone().Locked
	}
	m := f.signedUpd(s, peer)
	kind := "settle"
	site := "client.Channel.registerSubChannelSettlement"
	if funding {
		kind, site = "fund", "client.Channel.registerSubChannelFunding"
	}
	tc := tcase{class: "st-" + kind + "-" + v, accept: true, msg: &m, site: site}
	withIc(&tc, true, false)
	sh.execUpd(tc, false, doProbe)
}

// ---------- the settlement interceptor registered by the real acceptUpdate ----------

// execSubFinal: the honest client holds a parent channel and a sub-channel of it (restored, the parent
// locks the sub-channel's funds). The peer sends the FINAL update of the sub-channel, which also moves
// funds (either direction, or nothing); the user accepts, and the real acceptUpdate registers the
// settlement interceptor at the parent. Then the parent receives the withdrawal built from the
// sub-channel's final balances (must be accepted automatically) or from its balances before the final
// update (must be refused). The interceptor the model is given carries the sub-channel's real current
// balances, read from its machine after the accept.
func (sh *shard) execSubFinal(doProbe bool) {
	f := sh.f
	r := f.r
	peer, me := f.peer(), f.me
	// the sub-channel: same participants, other nonce, no app
	sp, err := channel.NewParams(uint64(1+r.Intn(100)), f.params.Parts, channel.NoApp(), f.g.Nonce(), false, false, channel.Aux{})
	if err != nil {
		panic(err)
	}
	sbals := make(channel.Balances, len(f.assets))
	for i := range sbals {
		sbals[i] = []channel.Bal{big.NewInt(int64(1 + r.Intn(40))), big.NewInt(int64(1 + r.Intn(40)))}
	}
	sub0 := &channel.State{ID: sp.ID(), Version: uint64(1 + r.Intn(20)), App: channel.NoApp(), Data: channel.NoData(),
		Allocation: channel.Allocation{Assets: f.assets, Backends: make([]wallet.BackendID, len(f.assets)), Balances: sbals}}
	// the parent locks exactly the sub-channel's funds
	pcur := f.genState(r.Intn(2), false)
	k := r.Intn(len(pcur.Locked) + 1)
	sa := *channel.NewSubAlloc(sp.ID(), sbals.Sum(), nil)
	pcur.Locked = append(pcur.Locked[:k:k], append([]channel.SubAlloc{sa}, pcur.Locked[k:]...)...)
	f.restore(channel.Acting, channel.Transaction{}, f.fullTx(pcur))
	peers := make([]map[wallet.BackendID]wire.Address, 2)
	peers[me], peers[peer] = f.h.Addr, f.p.Addr
	stx := channel.Transaction{State: sub0, Sigs: make([]wallet.Sig, 2)}
	stx.Sigs[me], _ = channel.Sign(f.h.Acc, sub0, 0)
	stx.Sigs[peer], _ = channel.Sign(f.p.Acc, sub0, 0)
	sub, err := f.h.C.VerifRestoreChannel(&source{idx: channel.Index(me), params: sp, current: stx, phase: channel.Acting}, f.ch, peers)
	if err != nil {
		panic(err)
	}
	// the final update of the sub-channel
	fin := sub0.Clone()
	fin.Version++
	fin.IsFinal = true
	dir := []string{"to-me", "to-me", "to-peer", "to-peer", "nothing"}[r.Intn(5)]
	for i := range fin.Balances {
		from, to := peer, me
		if dir == "to-peer" {
			from, to = me, peer
		}
		if dir != "nothing" {
			amt := big.NewInt(1 + r.Int63n(fin.Balances[i][from].Int64()))
			fin.Balances[i][from] = new(big.Int).Sub(fin.Balances[i][from], amt)
			fin.Balances[i][to] = new(big.Int).Add(fin.Balances[i][to], amt)
		}
	}
	fsig, _ := channel.Sign(f.p.Acc, fin, 0)
	fm := f.upd(fin, peer, fsig)
	env, ok := roundTrip(&wire.Envelope{Sender: f.p.Addr, Recipient: f.h.Addr, Msg: &fm})
	if !ok {
		return
	}
	f.h.resetAsked(vAccept)
	f.ob.take()
	out, _ := syncCall(func() { f.h.C.VerifHandleChannelUpdate(f.h, f.p.Addr, env.Msg.(client.ChannelUpdateProposal)) }, fastWatchdog)
	_, _, scur := sub.VerifSnapshot()
	f.ob.take()
	f.h.PR.take()
	if out != "RET" || scur.State == nil || !scur.State.IsFinal {
		sh.count("sf-setup", "final-not-accepted", "sf-setup/failed")
		f.burnt = true
		return
	}
	real := scur.State.Balances.Clone() // what the sub-channel's machine holds now
	pre := sub0.Balances
	cur := f.snapshot().Current.State
	variant := []string{"final", "prefinal"}[r.Intn(2)]
	var s *channel.State
	if variant == "final" {
		s = settleState(cur, sp.ID(), real)
	} else {
		s = settleState(cur, sp.ID(), pre)
	}
	m := f.signedUpd(s, peer)
	tc := tcase{class: "sf-" + variant + "/" + dir, accept: true, msg: &m, site: "client.Channel.acceptUpdate/registerSubChannelSettlement",
		settle: []icept{{ID: sp.ID(), Bals: real, Awaited: true, Pre: true}}}
	sh.execUpd(tc, false, doProbe)
	f.burnt = true // the client holds a second channel: start the next history from a fresh one
}

// ---------- the UpdateResponder used more than once ----------

// execResp: the responder of a request is called like the virtual-channel handlers and the settlement
// watcher call it (rejectProposal / acceptProposal / resp.Accept): every call must return.
func (sh *shard) execResp() {
	f := sh.f
	f.actingContext(f.r.Intn(2))
	before := f.snapshot()
	cur := before.Current.State
	u := f.signedUpd(f.pay(cur, f.peer(), false), f.peer())
	class := "r-valid"
	if f.r.Intn(3) == 0 {
		u = f.signedUpd(f.pay(cur, f.peer(), false), f.peer())
		u.State.Version += 3 // Accept fails in machine.Update
		u.Sig = f.sign(f.p.Acc, u.State)
		class = "r-accept-fails"
	}
	env, ok := roundTrip(&wire.Envelope{Sender: f.p.Addr, Recipient: f.h.Addr, Msg: &u})
	if !ok {
		return
	}
	msg := env.Msg.(*client.ChannelUpdateMsg)
	patterns := [][]bool{{false, false}, {true, false}, {false, true}, {true, true}, {true}, {false}, {false, false, true}}
	calls := patterns[f.r.Intn(len(patterns))]
	resp := f.ch.VerifNewUpdateResponder(msg)
	f.ob.take()
	returned := 0
	for _, acc := range calls {
		out, _ := syncCall(func() {
			ctx, cancel := context.WithTimeout(context.Background(), 2*time.Second)
			defer cancel()
			if acc {
				_ = resp.Accept(ctx)
			} else {
				_ = resp.Reject(ctx, "no")
			}
		}, 3*time.Second)
		if out != "RET" {
			break
		}
		returned++
	}
	var sent []int
	for _, e := range f.ob.take() {
		switch e.Msg.(type) {
		case *client.ChannelUpdateAccMsg:
			sent = append(sent, 0)
		case *client.ChannelUpdateRejMsg:
			sent = append(sent, 1)
		}
	}
	class += fmt.Sprintf("/%d-calls", len(calls))
	if returned < len(calls) {
		f.burnt = true
		if sh.prop == "C12" {
			sh.fail("client.UpdateResponder", "responder-called-twice", fmt.Sprintf("call %d on the responder of one request (calls %v, true = Accept) did not return", returned+1, calls),
				map[string]interface{}{"class": class, "message": cv.Msg(msg), "calls": calls})
		}
	}
	sh.count(class, fmt.Sprintf("returned-%d", returned), fmt.Sprintf("%s/%v/%d/%v", class, calls, returned, sent))
	sh.cases = append(sh.cases, hx.App("HResp", f.ctxTerm(before, nil, nil, false), f.updTerm(msg), hx.ListOf(calls, hx.Bool), hx.Nat(returned),
		hx.ListOf(sent, func(i int) string { return hx.N(uint64(i)) })))
	sh.index = append(sh.index, class)
	f.burnt = true // the machine may be left in Signing by a half-done Accept: start from a fresh context
}

// ---------- one sync message ----------

func (sh *shard) execSync(tc tcase) {
	f := sh.f
	sender := f.p.Addr
	if !tc.reach {
		sender = wireAddr(f.r)
	}
	env, ok := roundTrip(&wire.Envelope{Sender: sender, Recipient: f.h.Addr, Msg: tc.sync})
	if !ok {
		sh.count(tc.class, "undecodable", tc.class+"/undecodable")
		return
	}
	msg := env.Msg.(*client.ChannelSyncMsg)
	before := f.snapshot()
	known := msg.CurrentTX.State != nil && msg.CurrentTX.State.ID == f.params.ID()
	f.ob.take()
	var o obs
	if tc.busy {
		f.ch.VerifLockMachine() // a local operation of the honest client holds the machine mutex
	}
	var pv interface{}
	o.outcome, pv = syncCall(func() { f.h.C.VerifHandleSyncMsg(sender, msg) }, fastWatchdog)
	if tc.busy && o.outcome == "RET" {
		// the local operation ends: its deferred Unlock
		o.outcome, pv = syncCall(func() { f.ch.VerifUnlockMachine() }, fastWatchdog)
		if o.outcome == "PANIC" {
			pv = fmt.Sprintf("the local operation's own Unlock: %v", pv)
		}
	}
	if pv != nil {
		o.pv = fmt.Sprint(pv)
	}
	reply := false
	for _, e := range f.ob.take() {
		if _, ok := e.Msg.(*client.ChannelSyncMsg); ok {
			reply = true
		}
	}
	o.free = f.ch.VerifMachineMutexFree()
	o.after = f.snapshot()
	switch {
	case o.outcome == "PANIC":
		o.dec = 5
	case o.outcome == "HUNG":
		o.dec = 6
	case reply:
		o.dec = 4
	default:
		o.dec = 0
	}
	if o.dec >= 5 || !o.free {
		f.burnt = true
	}
	replay := map[string]interface{}{"class": tc.class, "message": cv.Msg(msg), "phase": before.Phase.String(), "outcome": o.outcome, "panic": o.pv}
	if sh.prop == "C12" {
		switch {
		case o.dec == 5:
			sh.fail(tc.site, tc.class, "handling the sync message panicked: "+o.pv, replay)
		case o.dec == 6:
			sh.fail(tc.site, tc.class, "the sync handler did not return", replay)
		case !o.free:
			sh.fail(tc.site, tc.class, "the sync handler returned but the machine mutex is held", replay)
		}
	}
	if ok, why := f.currentIntact(before, o.after, nil, false); !ok && o.dec != 5 {
		sh.fail("client.handleSyncMsg", "state-corrupted", "handling the sync message corrupted the channel's current state: "+why, replay)
		f.burnt = true
	}
	decName := []string{"Drop", "AskUser", "AutoAccept", "Reject", "Reply", "Panic", "Block"}[o.dec]
	sh.count(tc.class, decName, fmt.Sprintf("%s/%s/%s", tc.class, decName, before.Phase))
	tx := "None"
	if msg.CurrentTX.State != nil {
		tx = "(Some " + hx.Nat(f.st(msg.CurrentTX.State)) + ")"
	}
	// strangers without subscription cannot be answered: the model's `reach`
	term := hx.App("HSync", f.ctxTerm(before, nil, nil, tc.busy), hx.Bool(known), hx.Bool(tc.reach), hx.N(uint64(msg.Phase)), tx, f.obsTerm(o, nil))
	sh.cases = append(sh.cases, term)
	sh.index = append(sh.index, tc.class)
}

// ---------- a shard: one honest client, one channel, a history of messages ----------

func (f *fctx) randomContext(nl int) {
	phases := []channel.Phase{channel.Acting, channel.Acting, channel.Acting, channel.Acting, channel.Acting, channel.Acting,
		channel.Funding, channel.Signing, channel.Final, channel.Registering, channel.Registered, channel.Progressed, channel.Withdrawing, channel.Withdrawn}
	ph := phases[f.r.Intn(len(phases))]
	cur := f.genState(nl, ph == channel.Final)
	var stg channel.Transaction
	if ph == channel.Signing {
		n := f.pay(cur, f.r.Intn(2), false)
		stg = channel.Transaction{State: n, Sigs: make([]wallet.Sig, 2)}
		if f.r.Intn(2) == 0 {
			stg.Sigs[f.me] = f.sign(f.h.Acc, n)
		}
	}
	f.restore(ph, stg, f.fullTx(cur))
}

func (f *fctx) actingContext(nl int) {
	f.restore(channel.Acting, channel.Transaction{}, f.fullTx(f.genState(nl, false)))
}

func runShard(prop string, seed int64, idx int, n int, slow int, realOpen, unawaited bool) *shard {
	f := newFctx(seed)
	sh := &shard{f: f, prop: prop}
	r := f.r
	f.p = newPuppet(r)
	for i := 0; i < 4; i++ {
		f.vaccs = append(f.vaccs, f.g.Account())
	}
	f.kind = []string{"none", "pay"}[idx%2]
	na := 1 + r.Intn(2)
	for i := 0; i < na; i++ {
		f.assets = append(f.assets, f.g.Asset())
	}
	if realOpen {
		bus := wire.NewLocalBus()
		f.h = newHonest(r, bus)
		chans := make(chan *client.Channel, 2)
		f.h.startHandle(r, chans)
		al := channel.Allocation{Assets: f.assets, Backends: make([]wallet.BackendID, na), Balances: make(channel.Balances, na)}
		for i := range al.Balances {
			al.Balances[i] = []channel.Bal{big.NewInt(int64(50 + r.Intn(100))), big.NewInt(int64(50 + r.Intn(100)))}
		}
		opt := client.WithoutApp()
		if f.kind == "pay" {
			opt = client.WithApp(cv.PayApp, channel.NoData())
		}
		ch, params, err := openReal(r, f.h, f.p, chans, &al, opt)
		if err != nil {
			panic(fmt.Sprintf("real channel opening failed: %v", err))
		}
		f.ch, f.params, f.me, f.real = ch, params, 1, true
		f.atok[addrKey(f.params.Parts[0][0])] = 1
		f.atok[addrKey(f.params.Parts[1][0])] = 2
		f.ob = newOutbox(bus, f.p.Addr)
		f.ob.ack = f.ackProbe
	} else {
		f.me = r.Intn(2)
		f.h = newHonest(r, wire.NewLocalBus()) // keys and address; replaced by restore
		parts := make([]map[wallet.BackendID]wallet.Address, 2)
		parts[f.me] = wmap(f.h.Acc.Address())
		parts[f.peer()] = wmap(f.p.Acc.Address())
		p, err := channel.NewParams(uint64(1+r.Intn(100)), parts, f.app(), f.g.Nonce(), true, false, channel.Aux{})
		if err != nil {
			panic(err)
		}
		f.params = p
		f.burnt = true
		f.ch = nil
		f.atok[addrKey(f.params.Parts[0][0])] = 1 // tokens: participant i of the channel is i+1
		f.atok[addrKey(f.params.Parts[1][0])] = 2
		f.actingContext(r.Intn(3))
	}
	doProbe := prop == "C12"
	for k := 0; k < n; k++ {
		if f.burnt || (!f.real && r.Intn(8) == 0) || (f.real && r.Intn(20) == 0) {
			if r.Intn(3) == 0 {
				f.randomContext(r.Intn(3))
			} else {
				f.actingContext(r.Intn(4))
			}
		}
		s := f.snapshot()
		cur := s.Current.State
		if cur == nil {
			f.actingContext(1)
			s = f.snapshot()
			cur = s.Current.State
		}
		pick := r.Intn(100)
		w := []int{30, 50, 65, 80, 90} // ordinary, funding, settlement, vfund, vsettle, sync
		if prop == "C12" {
			w = []int{15, 28, 38, 58, 75}
		}
		switch {
		case pick < w[0]:
			sh.execUpd(f.ordinaryCase(cur), r.Intn(10) == 0, doProbe)
		case pick < w[1]:
			if r.Intn(4) == 0 {
				sh.execStale(doProbe)
			} else {
				sh.execUpd(f.fundingCase(cur), false, doProbe)
			}
		case pick < w[2]:
			if r.Intn(2) == 0 {
				sh.execSubFinal(doProbe)
				continue
			}
			if len(cur.Locked) == 0 || s.Phase != channel.Acting {
				f.actingContext(1 + r.Intn(3))
				cur = f.snapshot().Current.State
			}
			sh.execUpd(f.settlementCase(cur), false, doProbe)
		case pick < w[3]:
			if r.Intn(3) == 0 {
				if s.Phase != channel.Acting {
					f.actingContext(r.Intn(3))
					cur = f.snapshot().Current.State
				}
				sh.execUpd(f.vfundShape(cur), false, doProbe)
			} else {
				sh.execUpd(f.vfundCase(cur, false), false, doProbe)
			}
		case pick < w[4]:
			if r.Intn(3) == 0 {
				sh.execUpd(f.vsettleShape(), false, doProbe)
			} else {
				k, vp := f.vsettleContext()
				sh.execUpd(f.vsettleCase(f.snapshot().Current.State, k, vp, false), false, doProbe)
			}
		default:
			if r.Intn(6) == 0 {
				sh.execResp()
			} else if prop == "C12" && r.Intn(4) == 0 {
				sh.execDupProposal("")
			} else {
				if r.Intn(5) == 0 { // a local update was left half-way: the sync handler discards it
					cur0 := f.genState(r.Intn(2), false)
					n := f.pay(cur0, r.Intn(2), false)
					stg := channel.Transaction{State: n, Sigs: make([]wallet.Sig, 2)}
					if r.Intn(2) == 0 {
						stg.Sigs[f.me] = f.sign(f.h.Acc, n)
					}
					f.restore(channel.Signing, stg, f.fullTx(cur0))
					s = f.snapshot()
				}
				sh.execSync(f.syncCase(s))
			}
		}
	}
	if unawaited {
		// the known finding, once per run independent of the seed
		f.actingContext(0)
		sh.execUpd(f.unawaitedCase(f.snapshot().Current.State), false, doProbe)
		// colliding proposal ids on two parents, once per run independent of the seed
		sh.execDupProposal("same-id-two-parents")
	}
	// the slow cases: proposals that pass validation and wait for their twin
	for k := 0; k < slow; k++ {
		if k%2 == 0 {
			f.actingContext(r.Intn(2))
			tc := f.vfundCase(f.snapshot().Current.State, true)
			for !tc.slow {
				tc = f.vfundCase(f.snapshot().Current.State, true)
			}
			sh.execUpd(tc, false, doProbe)
		} else {
			k2, vp := f.vsettleContext()
			tc := f.vsettleCase(f.snapshot().Current.State, k2, vp, true)
			for !tc.slow {
				tc = f.vsettleCase(f.snapshot().Current.State, k2, vp, true)
			}
			sh.execUpd(tc, false, doProbe)
		}
	}
	return sh
}

// vsettleContext restores an Acting channel whose current state locks funds for a virtual channel
// (parameters vp, index map with two entries) and returns the position of that sub-allocation.
func (f *fctx) vsettleContext() (int, *channel.Params) {
	vp := f.vparams(2, true)
	// mostly parents with two or three locked sub-allocations (of different totals); the settled one
	// is inserted first, in the middle or last
	nl := f.r.Intn(3)
	if f.r.Intn(3) != 0 {
		nl = 1 + f.r.Intn(2)
	}
	cur := f.genState(nl, false)
	sa := f.randSubAlloc()
	for _, l := range cur.Locked {
		for l.Bals[0].Cmp(sa.Bals[0]) == 0 {
			sa.Bals[0] = new(big.Int).Add(sa.Bals[0], big.NewInt(int64(1+f.r.Intn(9))))
		}
	}
	sa.ID = vp.ID()
	if f.r.Intn(2) == 0 {
		sa.IndexMap = []channel.Index{0, 1}
	} else {
		sa.IndexMap = []channel.Index{1, 0}
	}
	k := f.r.Intn(len(cur.Locked) + 1)
	cur.Locked = append(cur.Locked[:k:k], append([]channel.SubAlloc{sa}, cur.Locked[k:]...)...)
	f.restore(channel.Acting, channel.Transaction{}, f.fullTx(cur))
	return k, vp
}

// ---------- driver ----------

func variantName() string {
	if v := os.Getenv("VERIF_C07_VARIANT"); v != "" {
		return v
	}
	return "repaired"
}

func run(prop string, seed int64, tier, out string) {
	hx.Seed(seed)
	res := hx.NewResult(prop, seed, tier)
	old := client.VerifSetSyncReplyTimeout(syncTimeout)
	defer client.VerifSetSyncReplyTimeout(old)
	nShards, perShard, slowShards := 16, 20, 4
	if tier != "quick" {
		nShards, perShard, slowShards = 64, 120, 16
	}
	seeds := make([]int64, nShards)
	for i := range seeds {
		seeds[i] = hx.Rng.Int63()
	}
	shards := make([]*shard, nShards)
	var wg sync.WaitGroup
	sem := make(chan struct{}, 16)
	for i := range shards {
		wg.Add(1)
		go func(i int) {
			defer wg.Done()
			sem <- struct{}{}
			defer func() { <-sem }()
			slow := 0
			if i < slowShards {
				slow = 1
				if tier != "quick" {
					slow = 2
				}
			}
			shards[i] = runShard(prop, seeds[i], i, perShard, slow, i%3 == 0, prop == "C12" && i == slowShards)
		}(i)
	}
	wg.Wait()
	total := 0
	for i, sh := range shards {
		var sb strings.Builder
		sb.WriteString("From V Require Import Run.Compare_Handlers.\nOpen Scope list_scope.\n")
		fmt.Fprintf(&sb, "Definition P := %s.\n", sh.f.paramsTerm())
		sb.WriteString(sh.f.header())
		fmt.Fprintf(&sb, "Definition sts := [\n%s\n].\n", strings.Join(sh.f.sts, ";\n"))
		fmt.Fprintf(&sb, "Definition cases := [\n%s\n].\n", strings.Join(sh.cases, ";\n"))
		fmt.Fprintf(&sb, "Definition M := Eval vm_compute in hmismatches %s P sts %d%%nat cases.\nPrint M.\n", variantName(), total)
		if err := os.WriteFile(filepath.Join(out, fmt.Sprintf("cases_%03d.v", i)), []byte(sb.String()), 0o644); err != nil {
			panic(err)
		}
		for _, e := range sh.events {
			res.Count(e.class, e.outcome, e.key, e.trivial)
		}
		for _, fl := range sh.fails {
			fl.Case += total
			res.Fail(fl)
		}
		for _, s := range sh.sample {
			res.Sample(s)
		}
		res.CaseIndex = append(res.CaseIndex, sh.index...)
		total += len(sh.cases)
	}
	sort.SliceStable(res.Failures, func(i, j int) bool { return res.Failures[i].Case < res.Failures[j].Case })
	res.PerFile = 0
	res.Rule = "an honest real client (client.New over wire.NewLocalBus, sim wallet, in-memory ledger, recording persister) and a puppet peer whose key the harness holds; " +
		"channels opened by the real opening protocol (every third shard) or restored in generated states (phases, locked sub-allocations, apps none/payment); " +
		"crafted ChannelUpdate / VirtualChannelFundingProposal / VirtualChannelSettlementProposal / ChannelSync messages (each round-tripped through the native serializer) handed to the real request handlers " +
		"under recover with a watchdog, with registered and awaited sub-channel interceptors; observed decision class, responses on the bus, own signature, machine afterwards, machine mutex; " +
		"C12: an honest probe update afterwards. distinct = (class, decision, responses, phase, countersigned)"
	res.Write(out)
}

func RunC07(seed int64, tier, out string) { run("C07", seed, tier, out) }
func RunC12(seed int64, tier, out string) { run("C12", seed, tier, out) }

var _ = rand.Int
