package c07

import (
	"fmt"
	"math/big"
	"math/rand"
	"time"

	simchannel "perun.network/go-perun/backend/sim/channel"
	"perun.network/go-perun/channel"
	"perun.network/go-perun/client"
	"perun.network/go-perun/wallet"
	"perun.network/go-perun/wire"
)

func RunC07(seed int64, tier, out string) {}
func RunC12(seed int64, tier, out string) {}

func syncCall(f func(), d time.Duration) (outcome string, pv interface{}) {
	done := make(chan interface{}, 1)
	go func() {
		defer func() { done <- recover() }()
		f()
	}()
	select {
	case v := <-done:
		if v != nil {
			return "PANIC", v
		}
		return "RET", nil
	case <-time.After(d):
		return "HUNG", nil
	}
}

func Experiment(seed int64) {
	r := rand.New(rand.NewSource(seed))
	bus := wire.NewLocalBus()
	h := newHonest(r, bus)
	chans := make(chan *client.Channel, 4)
	h.startHandle(r, chans)
	p := newPuppet(r)
	al := channel.Allocation{Assets: []channel.Asset{&simchannel.Asset{ID: 7}}, Backends: []wallet.BackendID{0},
		Balances: channel.Balances{{big.NewInt(100), big.NewInt(100)}}}
	t0 := time.Now()
	ch, params, err := openReal(r, h, p, chans, &al, client.WithoutApp())
	fmt.Println("open:", err, time.Since(t0))
	if err != nil {
		return
	}
	_ = params
	ob := newOutbox(bus, p.Addr)
	h.PR.take()
	cur := ch.State().Clone()
	next := cur.Clone()
	next.Version++
	next.Balances[0][0] = big.NewInt(90)
	next.Balances[0][1] = big.NewInt(110)
	sig, _ := channel.Sign(p.Acc, next, 0)
	msg := &client.ChannelUpdateMsg{ChannelUpdate: client.ChannelUpdate{State: next, ActorIdx: 0}, Sig: sig}
	h.resetAsked(vAccept)
	t0 = time.Now()
	o, pv := syncCall(func() { h.C.VerifHandleChannelUpdate(h, p.Addr, msg) }, 2*time.Second)
	fmt.Println("update:", o, pv, time.Since(t0), "asked", h.wasAsked())
	for _, e := range ob.take() {
		fmt.Printf("  out: %T\n", e.Msg)
	}
	for _, e := range h.PR.take() {
		fmt.Println("  pers:", e.Kind, e.Idx, e.Ver)
	}
	// sync with nil state
	o, pv = syncCall(func() { h.C.VerifHandleSyncMsg(p.Addr, &client.ChannelSyncMsg{}) }, 2*time.Second)
	fmt.Println("sync nil:", o, pv)
	// invalid virtual funding proposal
	n2 := ch.State().Clone()
	n2.Version++
	sig2, _ := channel.Sign(p.Acc, n2, 0)
	vp := &client.VirtualChannelFundingProposalMsg{
		ChannelUpdateMsg: client.ChannelUpdateMsg{ChannelUpdate: client.ChannelUpdate{State: n2, ActorIdx: 0}, Sig: sig2},
		Initial:          channel.SignedState{Params: params, State: n2.Clone(), Sigs: []wallet.Sig{nil, nil}},
		IndexMap:         []channel.Index{0, 1},
	}
	t0 = time.Now()
	o, pv = syncCall(func() { h.C.VerifHandleChannelUpdate(h, p.Addr, vp) }, 13*time.Second)
	fmt.Println("vfund invalid:", o, pv, time.Since(t0), "mutex free:", ch.VerifMachineMutexFree())
	for _, e := range ob.take() {
		fmt.Printf("  out: %T\n", e.Msg)
	}
}
