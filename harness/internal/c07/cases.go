package c07

import (
	"math/big"
	"time"

	simwallet "perun.network/go-perun/backend/sim/wallet"
	"perun.network/go-perun/channel"
	"perun.network/go-perun/client"
	"perun.network/go-perun/wallet"
)

// tcase is one message handed to a request handler of the honest client, with the interceptors that
// are registered while it is handled and the answer the user would give.
type tcase struct {
	class  string
	msg    client.ChannelUpdateProposal
	fund   []icept
	settle []icept
	accept bool
	slow   bool // a virtual-channel proposal that passes validation: the handler waits 10 s for its twin
	// sync messages
	sync  *client.ChannelSyncMsg
	reach bool
	busy  bool
	site  string
	wd    time.Duration // watchdog of this case (0: the default of its message type)
}

// unawaitedCase: the honest funding update of a sub-channel whose interceptor nobody awaits (the
// known finding): always generated once per C12 run, with a short watchdog.
func (f *fctx) unawaitedCase(cur *channel.State) tcase {
	id := f.g.ID()
	bals := f.part(cur.Balances)
	m := f.signedUpd(fundState(cur, id, bals, nil), f.peer())
	return tcase{class: "f-unawaited", accept: true, fund: []icept{{ID: id, Bals: bals, Awaited: false}}, msg: &m,
		site: "client.updateInterceptor.HandleUpdate", wd: 1500 * time.Millisecond}
}

func cloneBals(b channel.Balances) channel.Balances { return b.Clone() }

func balsOp(a, b channel.Balances, sub bool) channel.Balances {
	out := make(channel.Balances, len(a))
	for i := range a {
		out[i] = make([]channel.Bal, len(a[i]))
		for j := range a[i] {
			if sub {
				out[i][j] = new(big.Int).Sub(a[i][j], b[i][j])
			} else {
				out[i][j] = new(big.Int).Add(a[i][j], b[i][j])
			}
		}
	}
	return out
}

// part returns balances below cur: what a sub-channel or virtual channel is funded with. Both sides
// together stay below what either side owns, so that mutants which debit one side only are expressible.
func (f *fctx) part(cur channel.Balances) channel.Balances {
	out := make(channel.Balances, len(cur))
	for i := range cur {
		out[i] = make([]channel.Bal, len(cur[i]))
		lim := new(big.Int).Set(cur[i][0])
		for _, b := range cur[i] {
			if b.Cmp(lim) < 0 {
				lim.Set(b)
			}
		}
		lim.Rsh(lim, 1)
		for j := range cur[i] {
			if lim.Sign() > 0 && f.r.Intn(6) != 0 {
				out[i][j] = new(big.Int).Rand(f.r, lim)
			} else {
				out[i][j] = big.NewInt(0)
			}
		}
	}
	return out
}

func (f *fctx) upd(s *channel.State, actor int, sig wallet.Sig) client.ChannelUpdateMsg {
	return client.ChannelUpdateMsg{ChannelUpdate: client.ChannelUpdate{State: s, ActorIdx: channel.Index(actor)}, Sig: sig}
}

func (f *fctx) signedUpd(s *channel.State, actor int) client.ChannelUpdateMsg {
	return f.upd(s, actor, f.sign(f.p.Acc, s))
}

func next(cur *channel.State) *channel.State {
	s := cur.Clone()
	s.Version = cur.Version + 1
	return s
}

// fundState: cur with `bals` moved into a new sub-allocation (what fundSubChannel /
// proposeVirtualChannelFunding produce).
func fundState(cur *channel.State, id channel.ID, bals channel.Balances, imap []channel.Index) *channel.State {
	s := next(cur)
	s.Balances = balsOp(cur.Balances, bals, true)
	s.Locked = append(s.Locked, *channel.NewSubAlloc(id, bals.Sum(), imap))
	return s
}

// settleState: cur with the sub-allocation `id` removed and `bals` credited.
func settleState(cur *channel.State, id channel.ID, bals channel.Balances) *channel.State {
	s := next(cur)
	s.Balances = balsOp(cur.Balances, bals, false)
	for i := range s.Locked {
		if s.Locked[i].ID == id {
			s.Locked = append(s.Locked[:i:i], s.Locked[i+1:]...)
			break
		}
	}
	return s
}

// split returns balances of a two-party channel whose per-asset sums are `sums`.
func (f *fctx) split(sums []channel.Bal) channel.Balances {
	out := make(channel.Balances, len(sums))
	for i, s := range sums {
		a := big.NewInt(0)
		if s.Sign() > 0 {
			a = new(big.Int).Rand(f.r, new(big.Int).Add(s, big.NewInt(1)))
		}
		out[i] = []channel.Bal{a, new(big.Int).Sub(s, a)}
	}
	return out
}

func transform(b channel.Balances, np int, imap []channel.Index) channel.Balances {
	out := make(channel.Balances, len(b))
	for a := range b {
		out[a] = make([]channel.Bal, np)
		for p := range out[a] {
			out[a][p] = big.NewInt(0)
		}
		for p, q := range imap {
			out[a][q] = new(big.Int).Set(b[a][p])
		}
	}
	return out
}

// ---------- ordinary updates ----------

func (f *fctx) ordinaryCase(cur *channel.State) tcase {
	peer, me := f.peer(), f.me
	ok := func() *channel.State { return f.pay(cur, peer, false) }
	tc := tcase{accept: f.r.Intn(4) != 0, site: "client.Channel.handleUpdateReq"}
	type cand struct {
		name string
		mk   func() (client.ChannelUpdateMsg, bool)
	}
	cs := []cand{
		{"o-valid", func() (client.ChannelUpdateMsg, bool) { return f.signedUpd(ok(), peer), true }},
		{"o-valid", func() (client.ChannelUpdateMsg, bool) { return f.signedUpd(ok(), peer), true }},
		{"o-valid-final", func() (client.ChannelUpdateMsg, bool) { return f.signedUpd(f.pay(cur, peer, true), peer), true }},
		{"o-wrong-actor", func() (client.ChannelUpdateMsg, bool) { return f.signedUpd(f.pay(cur, me, false), me), true }},
		{"o-sig-other-state", func() (client.ChannelUpdateMsg, bool) {
			return f.upd(ok(), peer, f.sign(f.p.Acc, f.pay(cur, peer, false))), true
		}},
		{"o-sig-current-state", func() (client.ChannelUpdateMsg, bool) { return f.upd(ok(), peer, f.sign(f.p.Acc, cur)), true }},
		{"o-sig-junk", func() (client.ChannelUpdateMsg, bool) { return f.upd(ok(), peer, f.g.Sig()), true }},
		{"o-sig-foreign", func() (client.ChannelUpdateMsg, bool) { return f.upd(ok(), peer, f.sign(f.vaccs[0], ok())), true }},
		{"o-sig-own-key", func() (client.ChannelUpdateMsg, bool) { s := ok(); return f.upd(s, peer, f.sign(f.h.Acc, s)), true }},
		{"o-version+0", func() (client.ChannelUpdateMsg, bool) {
			s := ok()
			s.Version = cur.Version
			return f.signedUpd(s, peer), true
		}},
		{"o-version+2", func() (client.ChannelUpdateMsg, bool) {
			s := ok()
			s.Version = cur.Version + 2
			return f.signedUpd(s, peer), true
		}},
		{"o-sum+1", func() (client.ChannelUpdateMsg, bool) {
			s := ok()
			s.Balances[0][peer] = new(big.Int).Add(s.Balances[0][peer], big.NewInt(1))
			return f.signedUpd(s, peer), true
		}},
		{"o-other-channel", func() (client.ChannelUpdateMsg, bool) { s := ok(); s.ID[5] ^= 1; return f.signedUpd(s, peer), true }},
		{"o-other-app", func() (client.ChannelUpdateMsg, bool) {
			s := ok()
			if channel.IsNoApp(s.App) {
				s.App = payApp()
			} else {
				s.App = channel.NoApp()
			}
			return f.signedUpd(s, peer), true
		}},
		{"o-extra-participant", func() (client.ChannelUpdateMsg, bool) {
			s := ok()
			for i := range s.Balances {
				s.Balances[i] = append(s.Balances[i], big.NewInt(0))
			}
			return f.signedUpd(s, peer), true
		}},
		{"o-peer-gains", func() (client.ChannelUpdateMsg, bool) { return f.signedUpd(f.pay(cur, me, false), peer), true }},
		{"o-actor-out-of-range", func() (client.ChannelUpdateMsg, bool) { return f.signedUpd(ok(), 2+f.r.Intn(3)), true }},
		{"o-locked-added", func() (client.ChannelUpdateMsg, bool) {
			b := f.part(cur.Balances)
			for i := range b {
				b[i][me] = big.NewInt(0) // only the peer's own funds: passes every rule of the machine
			}
			return f.signedUpd(fundState(cur, f.g.ID(), b, nil), peer), true
		}},
	}
	if len(cur.Locked) > 0 {
		k := f.r.Intn(len(cur.Locked))
		cs = append(cs,
			cand{"o-locked-other-id", func() (client.ChannelUpdateMsg, bool) {
				s := ok()
				s.Locked[k].ID = f.g.ID()
				return f.signedUpd(s, peer), true
			}},
			cand{"o-locked-other-imap", func() (client.ChannelUpdateMsg, bool) {
				s := ok()
				switch im := s.Locked[k].IndexMap; len(im) {
				case 0:
					s.Locked[k].IndexMap = []channel.Index{0, 1}
				case 1:
					s.Locked[k].IndexMap = []channel.Index{im[0] ^ 1}
				default:
					s.Locked[k].IndexMap = append([]channel.Index{im[1], im[0]}, im[2:]...)
				}
				return f.signedUpd(s, peer), true
			}},
			cand{"o-locked-amount-to-peer", func() (client.ChannelUpdateMsg, bool) {
				s := ok()
				one := big.NewInt(1)
				s.Locked[k].Bals[0] = new(big.Int).Sub(s.Locked[k].Bals[0], one)
				s.Balances[0][peer] = new(big.Int).Add(s.Balances[0][peer], one)
				return f.signedUpd(s, peer), true
			}},
			cand{"o-locked-removed-to-peer", func() (client.ChannelUpdateMsg, bool) {
				s := ok()
				for i := range s.Balances {
					s.Balances[i][peer] = new(big.Int).Add(s.Balances[i][peer], s.Locked[k].Bals[i])
				}
				s.Locked = append(s.Locked[:k:k], s.Locked[k+1:]...)
				return f.signedUpd(s, peer), true
			}},
		)
		if len(cur.Locked) > 1 {
			cs = append(cs, cand{"o-locked-reordered", func() (client.ChannelUpdateMsg, bool) {
				s := ok()
				s.Locked[0], s.Locked[1] = s.Locked[1], s.Locked[0]
				return f.signedUpd(s, peer), true
			}})
		}
	}
	c := cs[f.r.Intn(len(cs))]
	m, _ := c.mk()
	tc.class, tc.msg = c.name, &m
	return tc
}

// ---------- sub-channel funding ----------

func (f *fctx) fundingCase(cur *channel.State) tcase {
	peer, me := f.peer(), f.me
	id := f.g.ID()
	bals := f.part(cur.Balances)
	ic := icept{ID: id, Bals: bals, Awaited: true}
	tc := tcase{accept: true, fund: []icept{ic}, site: "client.Channel.registerSubChannelFunding"}
	honest := func() *channel.State { return fundState(cur, id, bals, nil) }
	// the same total taken from one side only
	oneSide := func(who int) *channel.State {
		b := cloneBals(bals)
		for i := range b {
			b[i][who] = new(big.Int).Add(bals[i][0], bals[i][1])
			b[i][who^1] = big.NewInt(0)
		}
		s := next(cur)
		s.Balances = balsOp(cur.Balances, b, true)
		s.Locked = append(s.Locked, *channel.NewSubAlloc(id, bals.Sum(), nil))
		return s
	}
	names := []string{"f-honest", "f-honest", "f-debit-victim-only", "f-debit-peer-only", "f-shifted-by-one", "f-amount-mismatch",
		"f-imap-nonempty", "f-prepended", "f-unregistered", "f-unawaited", "f-two-interceptors", "f-already-locked", "f-sig-other-state"}
	if len(cur.Locked) > 0 {
		names = append(names, "f-other-suballoc-relabelled", "f-other-suballoc-to-peer", "f-other-suballoc-imap")
	}
	tc.class = names[f.r.Intn(len(names))]
	var s *channel.State
	switch tc.class {
	case "f-honest":
		s = honest()
	case "f-debit-victim-only":
		s = oneSide(me)
	case "f-debit-peer-only":
		s = oneSide(peer)
	case "f-shifted-by-one":
		s = honest()
		s.Balances[0][me] = new(big.Int).Sub(s.Balances[0][me], big.NewInt(1))
		s.Balances[0][peer] = new(big.Int).Add(s.Balances[0][peer], big.NewInt(1))
	case "f-amount-mismatch":
		s = honest()
		l := &s.Locked[len(s.Locked)-1]
		l.Bals = channel.CloneBals(l.Bals)
		l.Bals[0] = new(big.Int).Add(l.Bals[0], big.NewInt(1))
		s.Balances[0][peer] = new(big.Int).Sub(s.Balances[0][peer], big.NewInt(1))
	case "f-imap-nonempty":
		s = fundState(cur, id, bals, []channel.Index{0, 1})
	case "f-prepended":
		s = honest()
		n := len(s.Locked)
		s.Locked = append([]channel.SubAlloc{s.Locked[n-1]}, s.Locked[:n-1]...)
	case "f-unregistered":
		s = honest()
		tc.fund = nil
	case "f-unawaited":
		s = honest()
		tc.fund[0].Awaited = false
		tc.site = "client.updateInterceptor.HandleUpdate"
	case "f-two-interceptors":
		s = honest()
		tc.fund = append([]icept{{ID: f.g.ID(), Bals: f.part(cur.Balances), Awaited: true}}, tc.fund...)
	case "f-already-locked":
		c2 := cur.Clone()
		s = fundState(c2, id, bals, nil)
		// the current state is not changed: the id is simply one that is locked already
		if len(cur.Locked) > 0 {
			tc.fund[0].ID = cur.Locked[0].ID
			s = fundState(cur, cur.Locked[0].ID, bals, nil)
		}
	case "f-sig-other-state":
		s = honest()
		m := f.upd(s, peer, f.sign(f.p.Acc, oneSide(me)))
		tc.msg = &m
		return tc
	case "f-other-suballoc-relabelled":
		s = honest()
		s.Locked[0].ID = f.g.ID()
	case "f-other-suballoc-to-peer":
		s = honest()
		for i := range s.Balances {
			s.Balances[i][peer] = new(big.Int).Add(s.Balances[i][peer], s.Locked[0].Bals[i])
		}
		s.Locked = s.Locked[1:]
	case "f-other-suballoc-imap":
		s = honest()
		if len(s.Locked[0].IndexMap) == 0 {
			s.Locked[0].IndexMap = []channel.Index{1, 0}
		} else {
			s.Locked[0].IndexMap = []channel.Index{}
		}
	}
	m := f.signedUpd(s, peer)
	tc.msg = &m
	return tc
}

// ---------- sub-channel settlement ----------

// settlementCase needs a current state with at least one locked sub-allocation without index map.
func (f *fctx) settlementCase(cur *channel.State) tcase {
	peer, me := f.peer(), f.me
	k := f.r.Intn(len(cur.Locked))
	id := cur.Locked[k].ID
	bals := f.split(cur.Locked[k].Bals)
	tc := tcase{accept: true, settle: []icept{{ID: id, Bals: bals, Awaited: true}}, site: "client.Channel.registerSubChannelSettlement"}
	names := []string{"s-honest", "s-honest", "s-shifted-by-one", "s-not-removed", "s-unregistered", "s-unawaited", "s-all-to-peer", "s-readded"}
	if len(cur.Locked) > 1 {
		names = append(names, "s-other-suballoc-relabelled", "s-other-suballoc-imap", "s-other-suballocs-merged", "s-reordered")
	}
	tc.class = names[f.r.Intn(len(names))]
	s := settleState(cur, id, bals)
	other := 0
	if k == 0 {
		other = 1
	}
	oi := other // index of the other sub-allocation in s.Locked
	if other > k {
		oi = other - 1
	}
	switch tc.class {
	case "s-shifted-by-one":
		s.Balances[0][me] = new(big.Int).Sub(s.Balances[0][me], big.NewInt(1))
		s.Balances[0][peer] = new(big.Int).Add(s.Balances[0][peer], big.NewInt(1))
	case "s-not-removed":
		s = next(cur)
		s.Balances = balsOp(cur.Balances, bals, false)
		zero := make([]channel.Bal, len(f.assets))
		for i := range zero {
			zero[i] = big.NewInt(0)
		}
		s.Locked[k].Bals = zero
	case "s-unregistered":
		tc.settle = nil
	case "s-unawaited":
		tc.settle[0].Awaited = false
		tc.site = "client.updateInterceptor.HandleUpdate"
	case "s-all-to-peer":
		b := cloneBals(bals)
		for i := range b {
			b[i][peer] = new(big.Int).Add(bals[i][0], bals[i][1])
			b[i][me] = big.NewInt(0)
		}
		s = settleState(cur, id, b)
	case "s-readded":
		// removed and added again under another id with the credited funds taken out again
		s.Locked = append(s.Locked, *channel.NewSubAlloc(f.g.ID(), cur.Locked[k].Bals, nil))
		s.Balances = cur.Clone().Balances
	case "s-other-suballoc-relabelled":
		s.Locked[oi].ID = f.g.ID()
	case "s-other-suballoc-imap":
		if len(s.Locked[oi].IndexMap) == 0 {
			s.Locked[oi].IndexMap = []channel.Index{0, 1}
		} else {
			s.Locked[oi].IndexMap = []channel.Index{}
		}
	case "s-other-suballocs-merged":
		if len(s.Locked) > 1 {
			for i := range s.Locked[0].Bals {
				s.Locked[0].Bals[i] = new(big.Int).Add(s.Locked[0].Bals[i], s.Locked[1].Bals[i])
			}
			s.Locked = append(s.Locked[:1:1], s.Locked[2:]...)
		} else {
			s.Locked[0].ID = f.g.ID()
		}
	case "s-reordered":
		if len(s.Locked) > 1 {
			s.Locked[0], s.Locked[1] = s.Locked[1], s.Locked[0]
		} else {
			s.Locked[0].ID = f.g.ID()
		}
	}
	m := f.signedUpd(s, peer)
	tc.msg = &m
	return tc
}

// ---------- virtual channels ----------

func (f *fctx) vparams(n int, virtual bool) *channel.Params {
	parts := make([]map[wallet.BackendID]wallet.Address, n)
	for i := range parts {
		parts[i] = wmap(f.vaccs[i].Address())
	}
	p, err := channel.NewParams(uint64(1+f.r.Intn(100)), parts, channel.NoApp(), f.g.Nonce(), false, virtual, channel.Aux{})
	if err != nil {
		panic(err)
	}
	return p
}

func (f *fctx) vstate(p *channel.Params, bals channel.Balances, final bool) *channel.State {
	return &channel.State{ID: p.ID(), Version: uint64(f.r.Intn(5)), App: channel.NoApp(), Data: channel.NoData(),
		Allocation: channel.Allocation{Assets: f.assets, Backends: make([]wallet.BackendID, len(f.assets)), Balances: bals}, IsFinal: final}
}

func (f *fctx) vsigs(s *channel.State, signers []*simwallet.Account) []wallet.Sig {
	out := make([]wallet.Sig, len(signers))
	for i, a := range signers {
		if a != nil {
			out[i] = f.sign(a, s)
		}
	}
	return out
}

// vbals: balances of a virtual channel with np participants that the parent (through imap) can afford.
func (f *fctx) vbals(cur *channel.State, np int, imap []channel.Index) channel.Balances {
	out := make(channel.Balances, len(cur.Balances))
	for a := range out {
		out[a] = make([]channel.Bal, np)
		for p := range out[a] {
			out[a][p] = big.NewInt(0)
			if p < len(imap) && int(imap[p]) < len(cur.Balances[a]) && cur.Balances[a][imap[p]].Sign() > 0 {
				out[a][p] = new(big.Int).Rand(f.r, cur.Balances[a][imap[p]])
			}
		}
	}
	return out
}

func (f *fctx) vfundCase(cur *channel.State, allowSlow bool) tcase {
	peer, me := f.peer(), f.me
	tc := tcase{accept: true, site: "client.handleVirtualChannelFundingProposal"}
	imap := []channel.Index{0, 1}
	if f.r.Intn(2) == 0 {
		imap = []channel.Index{1, 0}
	}
	vp := f.vparams(2, true)
	vb := f.vbals(cur, 2, imap)
	vs := f.vstate(vp, vb, false)
	signers := []*simwallet.Account{f.vaccs[0], f.vaccs[1]}
	mk := func(s *channel.State, p *channel.Params, st *channel.State, sigs []wallet.Sig, im []channel.Index) *client.VirtualChannelFundingProposalMsg {
		return &client.VirtualChannelFundingProposalMsg{ChannelUpdateMsg: f.signedUpd(s, peer),
			Initial: channel.SignedState{Params: p, State: st, Sigs: sigs}, IndexMap: im}
	}
	honestU := fundState(cur, vp.ID(), transform(vb, 2, imap), imap)
	names := []string{"vf-not-virtual", "vf-id-mismatch", "vf-initial-locked", "vf-sig-missing", "vf-sig-other-state", "vf-sig-swapped",
		"vf-more-sigs-than-parts", "vf-fewer-state-parts", "vf-imap-short", "vf-imap-long", "vf-imap-entry-out-of-range", "vf-imap-duplicate",
		"vf-not-locked-after", "vf-amount-mismatch", "vf-other-assets", "vf-insufficient", "vf-debit-victim-only", "vf-shifted-by-one",
		"vf-update-invalid", "vf-three-parties", "vf-prepended"}
	if len(cur.Locked) > 0 {
		names = append(names, "vf-already-locked", "vf-other-suballoc-relabelled", "vf-other-suballoc-to-peer")
	}
	if allowSlow {
		names = append(names, "vf-valid", "vf-valid", "vf-valid")
	}
	tc.class = names[f.r.Intn(len(names))]
	switch tc.class {
	case "vf-valid":
		tc.msg, tc.slow = mk(honestU, vp, vs, f.vsigs(vs, signers), imap), true
	case "vf-not-virtual":
		p := f.vparams(2, false)
		st := f.vstate(p, vb, false)
		tc.msg = mk(fundState(cur, p.ID(), transform(vb, 2, imap), imap), p, st, f.vsigs(st, signers), imap)
	case "vf-id-mismatch":
		st := vs.Clone()
		st.ID[0] ^= 1
		tc.msg = mk(honestU, vp, st, f.vsigs(st, signers), imap)
	case "vf-initial-locked":
		st := vs.Clone()
		st.Locked = []channel.SubAlloc{f.randSubAlloc()}
		tc.msg = mk(honestU, vp, st, f.vsigs(st, signers), imap)
	case "vf-sig-missing":
		tc.msg = mk(honestU, vp, vs, f.vsigs(vs, []*simwallet.Account{f.vaccs[0], nil}), imap)
	case "vf-sig-other-state":
		o := vs.Clone()
		o.Version++
		tc.msg = mk(honestU, vp, vs, f.vsigs(o, signers), imap)
	case "vf-sig-swapped":
		tc.msg = mk(honestU, vp, vs, f.vsigs(vs, []*simwallet.Account{f.vaccs[1], f.vaccs[0]}), imap)
	case "vf-more-sigs-than-parts":
		// a state with three participants for parameters with two: three signatures are decoded
		b3 := f.vbals(cur, 3, imap)
		st := f.vstate(vp, b3, false)
		u := fundState(cur, vp.ID(), transform(b3, 2, imap), imap)
		tc.msg = mk(u, vp, st, f.vsigs(st, []*simwallet.Account{f.vaccs[0], f.vaccs[1], f.vaccs[2]}), imap)
	case "vf-fewer-state-parts":
		b1 := f.vbals(cur, 1, imap)
		st := f.vstate(vp, b1, false)
		s := next(cur)
		sums := b1.Sum()
		for a := range s.Balances {
			s.Balances[a][peer] = new(big.Int).Sub(s.Balances[a][peer], sums[a])
			if s.Balances[a][peer].Sign() < 0 {
				s.Balances[a][me] = new(big.Int).Add(s.Balances[a][me], s.Balances[a][peer])
				s.Balances[a][peer] = big.NewInt(0)
			}
		}
		s.Locked = append(s.Locked, *channel.NewSubAlloc(vp.ID(), sums, imap))
		tc.msg = mk(s, vp, st, f.vsigs(st, []*simwallet.Account{f.vaccs[0]}), imap)
	case "vf-imap-short":
		im := imap[:1]
		tc.msg = mk(fundState(cur, vp.ID(), transform(vb, 2, imap), im), vp, vs, f.vsigs(vs, signers), im)
	case "vf-imap-long":
		im := append(append([]channel.Index{}, imap...), 0)
		tc.msg = mk(fundState(cur, vp.ID(), transform(vb, 2, imap), im), vp, vs, f.vsigs(vs, signers), im)
	case "vf-imap-entry-out-of-range":
		im := []channel.Index{imap[0], channel.Index(2 + f.r.Intn(3))}
		tc.msg = mk(fundState(cur, vp.ID(), transform(vb, 2, imap), im), vp, vs, f.vsigs(vs, signers), im)
	case "vf-imap-duplicate":
		im := []channel.Index{imap[0], imap[0]}
		tc.msg = mk(fundState(cur, vp.ID(), transform(vb, 2, imap), im), vp, vs, f.vsigs(vs, signers), im)
	case "vf-not-locked-after":
		tc.msg = mk(f.pay(cur, peer, false), vp, vs, f.vsigs(vs, signers), imap)
	case "vf-amount-mismatch":
		s := honestU.Clone()
		l := &s.Locked[len(s.Locked)-1]
		l.Bals[0] = new(big.Int).Add(l.Bals[0], big.NewInt(1))
		s.Balances[0][peer] = new(big.Int).Sub(s.Balances[0][peer], big.NewInt(1))
		tc.msg = mk(s, vp, vs, f.vsigs(vs, signers), imap)
	case "vf-other-assets":
		st := vs.Clone()
		st.Assets = append([]channel.Asset{}, st.Assets...)
		st.Assets[0] = f.g.Asset()
		tc.msg = mk(honestU, vp, st, f.vsigs(st, signers), imap)
	case "vf-insufficient":
		// the virtual channel holds more than the parent has for one side; the update takes the
		// difference from the other side
		big1 := vb.Clone()
		q := int(imap[0])
		extra := new(big.Int).Add(cur.Balances[0][q], big.NewInt(1))
		big1[0][0] = extra
		st := f.vstate(vp, big1, false)
		s := next(cur)
		v := transform(big1, 2, imap)
		for a := range s.Balances {
			tot := new(big.Int).Add(v[a][0], v[a][1])
			s.Balances[a][0] = new(big.Int).Sub(s.Balances[a][0], tot)
			if s.Balances[a][0].Sign() < 0 {
				s.Balances[a][1] = new(big.Int).Add(s.Balances[a][1], s.Balances[a][0])
				s.Balances[a][0] = big.NewInt(0)
			}
		}
		s.Locked = append(s.Locked, *channel.NewSubAlloc(vp.ID(), big1.Sum(), imap))
		tc.msg = mk(s, vp, st, f.vsigs(st, signers), imap)
	case "vf-debit-victim-only":
		// both shares of the virtual channel are taken from the honest client
		s := next(cur)
		v := transform(vb, 2, imap)
		for a := range s.Balances {
			tot := new(big.Int).Add(v[a][0], v[a][1])
			s.Balances[a][me] = new(big.Int).Sub(s.Balances[a][me], tot)
		}
		s.Locked = append(s.Locked, *channel.NewSubAlloc(vp.ID(), vb.Sum(), imap))
		tc.msg = mk(s, vp, vs, f.vsigs(vs, signers), imap)
	case "vf-shifted-by-one":
		s := honestU.Clone()
		s.Balances[0][me] = new(big.Int).Sub(s.Balances[0][me], big.NewInt(1))
		s.Balances[0][peer] = new(big.Int).Add(s.Balances[0][peer], big.NewInt(1))
		tc.msg = mk(s, vp, vs, f.vsigs(vs, signers), imap)
	case "vf-update-invalid":
		s := honestU.Clone()
		s.Version++
		tc.msg = mk(s, vp, vs, f.vsigs(vs, signers), imap)
	case "vf-three-parties":
		p3 := f.vparams(3, true)
		im := []channel.Index{0, 1, channel.Index(f.r.Intn(2))}
		b3 := f.vbals(cur, 3, im[:2])
		st := f.vstate(p3, b3, false)
		s := next(cur)
		s.Locked = append(s.Locked, *channel.NewSubAlloc(p3.ID(), b3.Sum(), im))
		sums := b3.Sum()
		for a := range s.Balances {
			s.Balances[a][peer] = new(big.Int).Sub(s.Balances[a][peer], sums[a])
			if s.Balances[a][peer].Sign() < 0 {
				s.Balances[a][me] = new(big.Int).Add(s.Balances[a][me], s.Balances[a][peer])
				s.Balances[a][peer] = big.NewInt(0)
			}
		}
		tc.msg = mk(s, p3, st, f.vsigs(st, []*simwallet.Account{f.vaccs[0], f.vaccs[1], f.vaccs[2]}), im)
	case "vf-prepended":
		s := honestU.Clone()
		n := len(s.Locked)
		s.Locked = append([]channel.SubAlloc{s.Locked[n-1]}, s.Locked[:n-1]...)
		tc.msg = mk(s, vp, vs, f.vsigs(vs, signers), imap)
	case "vf-already-locked":
		// not constructible with a hash: the parent simply holds a sub-allocation with the same id
		// after an earlier funding; emulated by funding twice in a row is not possible in one message,
		// so the message re-uses the sub-allocation id for the state id check to fail first
		st := vs.Clone()
		st.ID = cur.Locked[0].ID
		tc.msg = mk(honestU, vp, st, f.vsigs(st, signers), imap)
	case "vf-other-suballoc-relabelled":
		s := honestU.Clone()
		s.Locked[0].ID = f.g.ID()
		tc.msg = mk(s, vp, vs, f.vsigs(vs, signers), imap)
	case "vf-other-suballoc-to-peer":
		s := honestU.Clone()
		for i := range s.Balances {
			s.Balances[i][peer] = new(big.Int).Add(s.Balances[i][peer], s.Locked[0].Bals[i])
		}
		s.Locked = s.Locked[1:]
		tc.msg = mk(s, vp, vs, f.vsigs(vs, signers), imap)
	}
	return tc
}

// vsettleCase needs a current state with a locked sub-allocation that carries a two-entry index map;
// the caller builds one if necessary (vsettleContext).
func (f *fctx) vsettleCase(cur *channel.State, k int, vp *channel.Params, allowSlow bool) tcase {
	peer, me := f.peer(), f.me
	tc := tcase{accept: true, site: "client.handleVirtualChannelSettlementProposal"}
	sa := cur.Locked[k]
	imap := sa.IndexMap
	fb := f.split(sa.Bals) // final balances of the virtual channel: sums = the locked amounts
	fs := f.vstate(vp, fb, true)
	signers := []*simwallet.Account{f.vaccs[0], f.vaccs[1]}
	mk := func(s *channel.State, p *channel.Params, st *channel.State, sigs []wallet.Sig) *client.VirtualChannelSettlementProposalMsg {
		return &client.VirtualChannelSettlementProposalMsg{ChannelUpdateMsg: f.signedUpd(s, peer),
			Final: channel.SignedState{Params: p, State: st, Sigs: sigs}}
	}
	honestU := settleState(cur, sa.ID, transform(fb, 2, imap))
	names := []string{"vs-id-mismatch", "vs-sig-missing", "vs-sig-other-state", "vs-more-sigs-than-parts", "vs-fewer-state-parts",
		"vs-other-assets", "vs-not-allocated", "vs-amount-mismatch", "vs-still-locked", "vs-shifted-by-one", "vs-all-to-peer", "vs-update-invalid"}
	if len(cur.Locked) > 1 {
		names = append(names, "vs-other-suballoc-relabelled", "vs-other-suballoc-imap", "vs-reordered")
	}
	if allowSlow {
		names = append(names, "vs-valid", "vs-valid", "vs-valid-not-final")
	}
	tc.class = names[f.r.Intn(len(names))]
	other := 0
	if k == 0 {
		other = 1
	}
	oi := other
	if other > k {
		oi = other - 1
	}
	switch tc.class {
	case "vs-valid":
		tc.msg, tc.slow = mk(honestU, vp, fs, f.vsigs(fs, signers)), true
	case "vs-valid-not-final":
		st := f.vstate(vp, fb, false)
		tc.msg, tc.slow = mk(honestU, vp, st, f.vsigs(st, signers)), true
	case "vs-id-mismatch":
		st := fs.Clone()
		st.ID[0] ^= 1
		tc.msg = mk(honestU, vp, st, f.vsigs(st, signers))
	case "vs-sig-missing":
		tc.msg = mk(honestU, vp, fs, f.vsigs(fs, []*simwallet.Account{nil, f.vaccs[1]}))
	case "vs-sig-other-state":
		o := fs.Clone()
		o.Version++
		tc.msg = mk(honestU, vp, fs, f.vsigs(o, signers))
	case "vs-more-sigs-than-parts":
		b3 := fb.Clone()
		for a := range b3 {
			b3[a] = append(b3[a], big.NewInt(0))
		}
		st := f.vstate(vp, b3, true)
		tc.msg = mk(honestU, vp, st, f.vsigs(st, []*simwallet.Account{f.vaccs[0], f.vaccs[1], f.vaccs[2]}))
	case "vs-fewer-state-parts":
		b1 := make(channel.Balances, len(fb))
		for a := range fb {
			b1[a] = []channel.Bal{new(big.Int).Add(fb[a][0], fb[a][1])}
		}
		st := f.vstate(vp, b1, true)
		tc.msg = mk(honestU, vp, st, f.vsigs(st, []*simwallet.Account{f.vaccs[0]}))
	case "vs-other-assets":
		st := fs.Clone()
		st.Assets = append([]channel.Asset{}, st.Assets...)
		st.Assets[0] = f.g.Asset()
		tc.msg = mk(honestU, vp, st, f.vsigs(st, signers))
	case "vs-not-allocated":
		p := f.vparams(2, true)
		st := f.vstate(p, fb, true)
		tc.msg = mk(honestU, p, st, f.vsigs(st, signers))
	case "vs-amount-mismatch":
		b := fb.Clone()
		b[0][0] = new(big.Int).Add(b[0][0], big.NewInt(1))
		st := f.vstate(vp, b, true)
		tc.msg = mk(honestU, vp, st, f.vsigs(st, signers))
	case "vs-still-locked":
		s := next(cur)
		tc.msg = mk(s, vp, fs, f.vsigs(fs, signers))
	case "vs-shifted-by-one":
		s := honestU.Clone()
		s.Balances[0][me] = new(big.Int).Sub(s.Balances[0][me], big.NewInt(1))
		s.Balances[0][peer] = new(big.Int).Add(s.Balances[0][peer], big.NewInt(1))
		tc.msg = mk(s, vp, fs, f.vsigs(fs, signers))
	case "vs-all-to-peer":
		b := make(channel.Balances, len(fb))
		for a := range fb {
			b[a] = []channel.Bal{big.NewInt(0), big.NewInt(0)}
			b[a][peer] = new(big.Int).Add(fb[a][0], fb[a][1])
		}
		tc.msg = mk(settleState(cur, sa.ID, b), vp, fs, f.vsigs(fs, signers))
	case "vs-update-invalid":
		s := honestU.Clone()
		s.Version += 2
		tc.msg = mk(s, vp, fs, f.vsigs(fs, signers))
	case "vs-other-suballoc-relabelled":
		s := honestU.Clone()
		s.Locked[oi].ID = f.g.ID()
		tc.msg = mk(s, vp, fs, f.vsigs(fs, signers))
	case "vs-other-suballoc-imap":
		s := honestU.Clone()
		if len(s.Locked[oi].IndexMap) == 0 {
			s.Locked[oi].IndexMap = []channel.Index{1, 0}
		} else {
			s.Locked[oi].IndexMap = []channel.Index{}
		}
		tc.msg = mk(s, vp, fs, f.vsigs(fs, signers))
	case "vs-reordered":
		s := honestU.Clone()
		if len(s.Locked) > 1 {
			s.Locked[0], s.Locked[1] = s.Locked[1], s.Locked[0]
		} else {
			s.Locked[0].ID = f.g.ID()
		}
		tc.msg = mk(s, vp, fs, f.vsigs(fs, signers))
	}
	return tc
}

// ---------- sync messages ----------

func (f *fctx) syncCase(s snap) tcase {
	tc := tcase{site: "client.handleSyncMsg", reach: true}
	names := []string{"y-empty-tx", "y-empty-tx-stranger", "y-known", "y-known", "y-known-stranger", "y-unknown", "y-busy", "y-busy-stranger", "y-other-version"}
	tc.class = names[f.r.Intn(len(names))]
	cur := s.Current.State
	ph := channel.Phase(f.r.Intn(12))
	switch tc.class {
	case "y-empty-tx":
		tc.sync = &client.ChannelSyncMsg{Phase: ph}
	case "y-empty-tx-stranger":
		tc.sync, tc.reach = &client.ChannelSyncMsg{Phase: ph}, false
	case "y-known":
		tc.sync = &client.ChannelSyncMsg{Phase: ph, CurrentTX: f.fullTx(cur.Clone())}
	case "y-known-stranger":
		tc.sync, tc.reach = &client.ChannelSyncMsg{Phase: ph, CurrentTX: f.fullTx(cur.Clone())}, false
	case "y-unknown":
		o := cur.Clone()
		o.ID[9] ^= 4
		tc.sync = &client.ChannelSyncMsg{Phase: ph, CurrentTX: channel.Transaction{State: o, Sigs: f.g.SigsN(2)}}
	case "y-busy":
		tc.sync, tc.busy = &client.ChannelSyncMsg{Phase: ph, CurrentTX: f.fullTx(cur.Clone())}, true
	case "y-busy-stranger":
		tc.sync, tc.busy, tc.reach = &client.ChannelSyncMsg{Phase: ph, CurrentTX: f.fullTx(cur.Clone())}, true, false
	case "y-other-version":
		o := f.pay(cur, f.peer(), false)
		tc.sync = &client.ChannelSyncMsg{Phase: ph, CurrentTX: channel.Transaction{State: o, Sigs: []wallet.Sig{nil, nil}}}
	}
	return tc
}

// ---------- shape mutations: every dimension of a virtual-channel proposal varied on its own ----------

// dims draws the dimensions of a proposal: a common size n, from which each dimension deviates
// independently (so that consistent shapes of every size and single deviations are both frequent).
func (f *fctx) dims(lo, hi int) (n int, pick func(lo, hi int) int) {
	n = lo + f.r.Intn(hi-lo+1)
	pick = func(lo, hi int) int {
		if f.r.Intn(5) < 3 && n >= lo && n <= hi {
			return n
		}
		return lo + f.r.Intn(hi-lo+1)
	}
	return
}

func (f *fctx) shapeImap(l int) []channel.Index {
	im := make([]channel.Index, l)
	for i := range im {
		im[i] = channel.Index(f.r.Intn(4))
	}
	if l > 0 && f.r.Intn(3) == 0 { // a permutation prefix: entries distinct
		p := f.r.Perm(4)
		for i := range im {
			im[i] = channel.Index(p[i])
		}
	}
	return im
}

// shapeBals: balances of a virtual channel with np participants, every entry small and (if the parent
// can afford it) positive.
func (f *fctx) shapeBals(cur *channel.State, np int) channel.Balances {
	out := make(channel.Balances, len(cur.Balances))
	for a := range out {
		lim := new(big.Int).Set(cur.Balances[a][0])
		if cur.Balances[a][1].Cmp(lim) < 0 {
			lim.Set(cur.Balances[a][1])
		}
		lim.Rsh(lim, 3)
		out[a] = make([]channel.Bal, np)
		for p := range out[a] {
			out[a][p] = big.NewInt(0)
			if lim.Sign() > 0 {
				out[a][p] = new(big.Int).Add(new(big.Int).Rand(f.r, lim), big.NewInt(1))
			}
		}
	}
	return out
}

// owner: the participant of the parent that index map entry p points to, the peer where it points nowhere.
func (f *fctx) owner(imap []channel.Index, p int) int {
	if p < len(imap) && int(imap[p]) < 2 {
		return int(imap[p])
	}
	return f.peer()
}

func validShape(nParts, nState int, imap []channel.Index) bool {
	if nParts != nState || nState != len(imap) {
		return false
	}
	seen := map[channel.Index]bool{}
	for _, q := range imap {
		if q >= 2 || seen[q] {
			return false
		}
		seen[q] = true
	}
	return true
}

// vfundShape: a correctly signed funding proposal whose parameter participants, state participants
// (= decoded signatures) and index map (length, entries) are drawn independently of the parent.
func (f *fctx) vfundShape(cur *channel.State) tcase {
	tc := tcase{class: "vf-shape", accept: true, site: "client.handleVirtualChannelFundingProposal"}
	for {
		_, pick := f.dims(2, 4)
		nParts, nState, imap := pick(2, 4), pick(1, 4), f.shapeImap(pick(0, 4))
		if validShape(nParts, nState, imap) {
			continue // would wait 10 s for its twin: the vf-valid class
		}
		vp := f.vparams(nParts, true)
		vb := f.shapeBals(cur, nState)
		vs := f.vstate(vp, vb, false)
		signers := make([]*simwallet.Account, nState)
		for i := range signers {
			signers[i] = f.vaccs[i]
		}
		s := next(cur)
		for a := range vb {
			for p := range vb[a] {
				q := f.owner(imap, p)
				s.Balances[a][q] = new(big.Int).Sub(s.Balances[a][q], vb[a][p])
			}
		}
		s.Locked = append(s.Locked, *channel.NewSubAlloc(vp.ID(), vb.Sum(), imap))
		tc.msg = &client.VirtualChannelFundingProposalMsg{ChannelUpdateMsg: f.signedUpd(s, f.peer()),
			Initial: channel.SignedState{Params: vp, State: vs, Sigs: f.vsigs(vs, signers)}, IndexMap: imap}
		tc.class = "vf-shape"
		return tc
	}
}

// vsettleShapeContext restores an Acting channel that locks funds for a virtual channel under an
// index map of arbitrary shape, and returns a correctly signed settlement proposal whose dimensions
// are drawn independently.
func (f *fctx) vsettleShape() tcase {
	tc := tcase{accept: true, site: "client.handleVirtualChannelSettlementProposal"}
	for {
		_, pick := f.dims(2, 4)
		nParts, nState, imap := pick(2, 4), pick(1, 4), f.shapeImap(pick(0, 4))
		if validShape(nParts, nState, imap) {
			continue
		}
		vp := f.vparams(nParts, true)
		cur := f.genState(f.r.Intn(2), false)
		sa := f.randSubAlloc()
		sa.ID, sa.IndexMap = vp.ID(), imap
		k := f.r.Intn(len(cur.Locked) + 1)
		cur.Locked = append(cur.Locked[:k:k], append([]channel.SubAlloc{sa}, cur.Locked[k:]...)...)
		f.restore(channel.Acting, channel.Transaction{}, f.fullTx(cur))
		// final balances: the locked amounts split among nState participants
		fb := make(channel.Balances, len(sa.Bals))
		for a := range fb {
			fb[a] = make([]channel.Bal, nState)
			rem := new(big.Int).Set(sa.Bals[a])
			for p := 0; p < nState; p++ {
				v := rem
				if p < nState-1 {
					v = new(big.Int).Rand(f.r, new(big.Int).Add(rem, big.NewInt(1)))
				}
				fb[a][p] = new(big.Int).Set(v)
				rem = new(big.Int).Sub(rem, v)
			}
		}
		fs := f.vstate(vp, fb, true)
		signers := make([]*simwallet.Account, nState)
		for i := range signers {
			signers[i] = f.vaccs[i]
		}
		s := next(cur)
		for a := range fb {
			for p := range fb[a] {
				q := f.owner(imap, p)
				s.Balances[a][q] = new(big.Int).Add(s.Balances[a][q], fb[a][p])
			}
		}
		s.Locked = append(s.Locked[:k:k], s.Locked[k+1:]...)
		tc.msg = &client.VirtualChannelSettlementProposalMsg{ChannelUpdateMsg: f.signedUpd(s, f.peer()),
			Final: channel.SignedState{Params: vp, State: fs, Sigs: f.vsigs(fs, signers)}}
		tc.class = "vs-shape"
		return tc
	}
}
