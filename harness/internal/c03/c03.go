// Package c03: honest settlement pays each party its balance in the last agreed state (property C03).
// The machinery is shared with C04: internal/settle (scenario programs with real clients, oracle, T3 log)
// and internal/strictledger (the strict reference ledger and its differential check).
package c03

import "verif/harness/internal/settle"

func Run(seed int64, tier, out string) { settle.RunProperty("C03", false, seed, tier, out) }
