// Package c15: equality vs. encoding, signatures bind one state (property C15).
package c15

import (
	"bytes"
	"fmt"
	"math/big"

	"perun.network/go-perun/channel"
	"perun.network/go-perun/wire/perunio"
	"verif/harness/internal/cv"
	"verif/harness/internal/hx"
)

func encode(v perunio.Encoder) (out []byte, ok bool, panicked bool) {
	defer func() {
		if r := recover(); r != nil {
			out, ok, panicked = nil, false, true
		}
	}()
	var buf bytes.Buffer
	if err := v.Encode(&buf); err != nil {
		return nil, false, false
	}
	return buf.Bytes(), true, false
}

type mutation struct {
	name string
	f    func(g *cv.Gen, s *channel.State) bool // false: not applicable to this state
}

func bump(b *big.Int) *big.Int { return new(big.Int).Add(b, big.NewInt(1)) }

var mutations = []mutation{
	{"equal-copy", func(g *cv.Gen, s *channel.State) bool { return true }},
	{"id", func(g *cv.Gen, s *channel.State) bool { s.ID[g.R.Intn(32)] ^= 1 << uint(g.R.Intn(8)); return true }},
	{"version", func(g *cv.Gen, s *channel.State) bool { s.Version ^= 1 << uint(g.R.Intn(64)); return true }},
	{"final", func(g *cv.Gen, s *channel.State) bool { s.IsFinal = !s.IsFinal; return true }},
	{"app", func(g *cv.Gen, s *channel.State) bool {
		switch {
		case channel.IsNoApp(s.App):
			s.App, s.Data = cv.PayApp, channel.NoData()
		case s.App == channel.App(cv.PayApp):
			if g.R.Intn(2) == 0 {
				s.App = channel.NoApp()
			} else {
				s.App, s.Data = cv.MockApp, channel.NewMockOp(0)
			}
		default:
			s.App, s.Data = cv.PayApp, channel.NoData()
		}
		return true
	}},
	{"data", func(g *cv.Gen, s *channel.State) bool {
		op, ok := s.Data.(*channel.MockOp)
		if !ok {
			return false
		}
		s.Data = channel.NewMockOp(*op + 1)
		return true
	}},
	{"balance", func(g *cv.Gen, s *channel.State) bool {
		i, j := g.R.Intn(len(s.Balances)), g.R.Intn(len(s.Balances[0]))
		s.Balances[i][j] = bump(s.Balances[i][j])
		return true
	}},
	{"asset", func(g *cv.Gen, s *channel.State) bool {
		i := g.R.Intn(len(s.Assets))
		s.Assets[i] = g.Asset()
		return true
	}},
	{"backend", func(g *cv.Gen, s *channel.State) bool {
		s.Backends[g.R.Intn(len(s.Backends))] = 1
		return true
	}},
	{"dim-parts", func(g *cv.Gen, s *channel.State) bool {
		for i := range s.Balances {
			s.Balances[i] = append(s.Balances[i], big.NewInt(0))
		}
		return true
	}},
	{"dim-assets", func(g *cv.Gen, s *channel.State) bool {
		n := len(s.Balances[0])
		row := make([]channel.Bal, n)
		for i := range row {
			row[i] = big.NewInt(0)
		}
		s.Assets = append(s.Assets, g.Asset())
		s.Backends = append(s.Backends, 0)
		s.Balances = append(s.Balances, row)
		for i := range s.Locked {
			s.Locked[i].Bals = append(s.Locked[i].Bals, big.NewInt(0))
		}
		return true
	}},
	{"locked-add", func(g *cv.Gen, s *channel.State) bool {
		s.Locked = append(s.Locked, g.SubAlloc(len(s.Assets)))
		return true
	}},
	{"locked-id", func(g *cv.Gen, s *channel.State) bool {
		if len(s.Locked) == 0 {
			return false
		}
		s.Locked[g.R.Intn(len(s.Locked))].ID[g.R.Intn(32)] ^= 0x10
		return true
	}},
	{"locked-amount", func(g *cv.Gen, s *channel.State) bool {
		if len(s.Locked) == 0 {
			return false
		}
		l := &s.Locked[g.R.Intn(len(s.Locked))]
		i := g.R.Intn(len(l.Bals))
		l.Bals[i] = bump(l.Bals[i])
		return true
	}},
	{"locked-imap-entry", func(g *cv.Gen, s *channel.State) bool {
		for k := range s.Locked {
			if len(s.Locked[k].IndexMap) > 0 {
				i := g.R.Intn(len(s.Locked[k].IndexMap))
				s.Locked[k].IndexMap[i] ^= 1
				return true
			}
		}
		return false
	}},
	{"locked-imap-len", func(g *cv.Gen, s *channel.State) bool {
		if len(s.Locked) == 0 {
			return false
		}
		l := &s.Locked[g.R.Intn(len(s.Locked))]
		l.IndexMap = append(l.IndexMap, channel.Index(g.R.Intn(3)))
		return true
	}},
	{"locked-imap-nil-vs-empty", func(g *cv.Gen, s *channel.State) bool {
		for k := range s.Locked {
			if len(s.Locked[k].IndexMap) == 0 {
				if s.Locked[k].IndexMap == nil {
					s.Locked[k].IndexMap = []channel.Index{}
				} else {
					s.Locked[k].IndexMap = nil
				}
				return true
			}
		}
		return false
	}},
	{"locked-swap", func(g *cv.Gen, s *channel.State) bool {
		if len(s.Locked) < 2 {
			return false
		}
		s.Locked[0], s.Locked[1] = s.Locked[1], s.Locked[0]
		return true
	}},
	{"independent", func(g *cv.Gen, s *channel.State) bool { *s = *g.State(); return true }},
}

// Run generates pairs, runs the real Equal/Encode/Sign/Verify, checks the oracle and writes cases.
func Run(seed int64, tier, out string) {
	hx.Seed(seed)
	g := &cv.Gen{R: hx.Rng}
	res := hx.NewResult("C15", seed, tier)
	res.Rule = "pairs of states (and their allocations, balances, first sub-allocations) that are equal copies, differ in exactly one field, or are independent; " +
		"a case is distinct by (mutation class, level, Equal verdict, encodings-equal verdict, dimensions) and non-trivial unless it is an independent random pair"
	w := hx.NewCaseWriter(out, "Run.Compare_C15", 64)
	res.PerFile = 64
	n := 200
	if tier == "thorough" {
		n = 4000
	}
	accs := []interface {
		SignData([]byte) ([]byte, error)
	}{}
	_ = accs
	acc0, acc1 := g.Account(), g.Account()
	for k := 0; k < n; k++ {
		a := g.State()
		b := a.Clone()
		m := mutations[k%len(mutations)]
		if !m.f(g, b) {
			m = mutations[0]
		}
		// --- state level
		eq := a.Equal(b) == nil
		ea, oka, pa := encode(a)
		eb, okb, pb := encode(b)
		encEq := oka && okb && bytes.Equal(ea, eb)
		idx := w.Add(hx.App("CState", cv.State(a), cv.State(b), hx.Bool(eq), hx.Bool(oka), hx.Hex(ea), hx.Bool(okb), hx.Hex(eb)))
		res.CaseIndex = append(res.CaseIndex, "state/"+m.name)
		key := fmt.Sprintf("state/%s/%v/%v/%d/%d/%d", m.name, eq, encEq, len(a.Assets), len(a.Balances[0]), len(a.Locked))
		res.Count("state/"+m.name, fmt.Sprintf("eq=%v,enc=%v", eq, encEq), key, m.name == "independent")
		res.Sample(map[string]interface{}{"level": "state", "mutation": m.name, "equal": eq, "encodings_equal": encEq, "a": cv.State(a), "b": cv.State(b)})
		if pa || pb {
			res.Fail(hx.Failure{Site: "channel.State.Encode", InputClass: m.name, What: "encode panicked", Case: idx})
		} else if oka && okb && eq != encEq {
			res.Fail(hx.Failure{Site: "channel.State.Equal", InputClass: m.name, Case: idx,
				What:   fmt.Sprintf("Equal says %v but encodings equal is %v", eq, encEq),
				Replay: map[string]string{"a": cv.State(a), "b": cv.State(b)}})
		}
		// signatures: sig of acc0 over a verifies for b iff encodings equal; never for acc1.
		// Every fourth time a Sign and a Verify that must fail (a state that cannot be encoded) come
		// first: what they leave behind must not show in the calls that follow.
		if k%4 == 1 {
			bad := a.Clone()
			bad.Balances[0][0] = big.NewInt(-1)
			if _, err := channel.Sign(acc0, bad, 0); err == nil {
				res.Fail(hx.Failure{Site: "channel.Sign", InputClass: "unencodable", Case: idx, What: "a state with a negative balance was signed"})
			}
			_, _ = channel.Verify(acc0.Address(), bad, make([]byte, 64))
		}
		if oka && okb {
			sig, err := channel.Sign(acc0, a, 0)
			if err == nil {
				v0, _ := channel.Verify(acc0.Address(), b, sig)
				v1, _ := channel.Verify(acc1.Address(), b, sig)
				res.Count("sig/"+m.name, fmt.Sprintf("own=%v,other=%v", v0, v1), fmt.Sprintf("sig/%s/%v/%v", m.name, v0, v1), m.name == "independent")
				if v0 != encEq || v1 {
					res.Fail(hx.Failure{Site: "channel.Verify", InputClass: m.name, Case: idx,
						What: fmt.Sprintf("signature of key0 over a verifies for b under key0=%v key1=%v, encodings equal=%v", v0, v1, encEq)})
				}
				if v0 != eq {
					res.Fail(hx.Failure{Site: "channel.State.Equal", InputClass: m.name, Case: idx,
						What:   fmt.Sprintf("signature over a verifies for b = %v but Equal = %v", v0, eq),
						Replay: map[string]string{"a": cv.State(a), "b": cv.State(b)}})
				}
			}
		}
		// the same state object modified in place between Sign and Verify (and between Verify and
		// Sign): a signature is over the state's content at the time of the call
		if x := a.Clone(); oka {
			sigx, err := channel.Sign(acc0, x, 0)
			y := x.Clone()
			if applied := m.f(g, x); err == nil && applied {
				ex, okx, _ := encode(x)
				ey, oky, _ := encode(y)
				if okx && oky {
					same := bytes.Equal(ex, ey)
					v, _ := channel.Verify(acc0.Address(), x, sigx)
					res.Count("sig-inplace/"+m.name, fmt.Sprintf("same=%v,verifies=%v", same, v), fmt.Sprintf("sig-inplace/%s/%v/%v", m.name, same, v), false)
					if v != same {
						res.Fail(hx.Failure{Site: "channel.Verify", InputClass: "inplace/" + m.name, Case: idx,
							What:   fmt.Sprintf("a state signed, then modified in place (%s): the old signature verifies=%v, encodings equal=%v", m.name, v, same),
							Replay: map[string]string{"signed": cv.State(y), "modified": cv.State(x)}})
					}
					sig2, err2 := channel.Sign(acc0, x, 0)
					if err2 == nil {
						if v2, _ := channel.Verify(acc0.Address(), x.Clone(), sig2); !v2 {
							res.Fail(hx.Failure{Site: "channel.Sign", InputClass: "inplace/" + m.name, Case: idx,
								What:   "a state verified, modified in place and then signed: the new signature does not verify for an equal clone",
								Replay: map[string]string{"before": cv.State(y), "signed": cv.State(x)}})
						}
					}
				}
			}
		}
		// --- allocation level
		aeq := a.Allocation.Equal(&b.Allocation) == nil
		eaa, okaa, _ := encode(a.Allocation)
		eba, okba, _ := encode(b.Allocation)
		aencEq := okaa && okba && bytes.Equal(eaa, eba)
		idx = w.Add(hx.App("CAlloc", cv.Alloc(a.Allocation), cv.Alloc(b.Allocation), hx.Bool(aeq), hx.Bool(okaa), hx.Hex(eaa), hx.Bool(okba), hx.Hex(eba)))
		res.CaseIndex = append(res.CaseIndex, "alloc/"+m.name)
		res.Count("alloc/"+m.name, fmt.Sprintf("eq=%v,enc=%v", aeq, aencEq), fmt.Sprintf("alloc/%s/%v/%v/%d", m.name, aeq, aencEq, len(a.Locked)), m.name == "independent")
		if okaa && okba && aeq != aencEq {
			res.Fail(hx.Failure{Site: "channel.Allocation.Equal", InputClass: m.name, Case: idx,
				What:   fmt.Sprintf("Equal says %v but encodings equal is %v", aeq, aencEq),
				Replay: map[string]string{"a": cv.Alloc(a.Allocation), "b": cv.Alloc(b.Allocation)}})
		}
		// --- balances level
		beq := a.Balances.Equal(b.Balances)
		eab, okab, _ := encode(a.Balances)
		ebb, okbb, _ := encode(b.Balances)
		bencEq := okab && okbb && bytes.Equal(eab, ebb)
		idx = w.Add(hx.App("CBals", cv.Bals(a.Balances), cv.Bals(b.Balances), hx.Bool(beq), hx.Bool(okab), hx.Hex(eab), hx.Bool(okbb), hx.Hex(ebb)))
		res.CaseIndex = append(res.CaseIndex, "bals/"+m.name)
		res.Count("bals/"+m.name, fmt.Sprintf("eq=%v,enc=%v", beq, bencEq), fmt.Sprintf("bals/%s/%v/%v", m.name, beq, bencEq), m.name == "independent")
		if okab && okbb && beq != bencEq {
			res.Fail(hx.Failure{Site: "channel.Balances.Equal", InputClass: m.name, Case: idx,
				What: fmt.Sprintf("Equal says %v but encodings equal is %v", beq, bencEq)})
		}
		// --- sub-allocation level (pairwise over the locked lists)
		for i := 0; i < len(a.Locked) && i < len(b.Locked); i++ {
			sa, sb := a.Locked[i], b.Locked[i]
			seq := sa.Equal(&sb) == nil
			esa, oksa, _ := encode(sa)
			esb, oksb, _ := encode(sb)
			sencEq := oksa && oksb && bytes.Equal(esa, esb)
			idx = w.Add(hx.App("CSub", cv.SubAlloc(sa), cv.SubAlloc(sb), hx.Bool(seq), hx.Bool(oksa), hx.Hex(esa), hx.Bool(oksb), hx.Hex(esb)))
			res.CaseIndex = append(res.CaseIndex, "sub/"+m.name)
			res.Count("sub/"+m.name, fmt.Sprintf("eq=%v,enc=%v", seq, sencEq), fmt.Sprintf("sub/%s/%v/%v/%d", m.name, seq, sencEq, len(sa.IndexMap)), m.name == "independent")
			if oksa && oksb && seq != sencEq {
				res.Fail(hx.Failure{Site: "channel.SubAlloc.Equal", InputClass: m.name, Case: idx,
					What:   fmt.Sprintf("Equal says %v but encodings equal is %v", seq, sencEq),
					Replay: map[string]string{"a": cv.SubAlloc(sa), "b": cv.SubAlloc(sb)}})
			}
		}
	}
	w.Close()
	res.Write(out)
}
