package protoc

import (
	"bytes"
	"fmt"
	"net"
	"reflect"
	"strings"
	"time"

	"google.golang.org/protobuf/proto"
	"perun.network/go-perun/wire"
	wirenet "perun.network/go-perun/wire/net"
	pb "perun.network/go-perun/wire/protobuf"
	"verif/harness/internal/cv"
	"verif/harness/internal/hx"
)

// observe records one malformed input: outcome, oracle (no panic, limits), case.
func (r *run) observe(caseTerm, class string, o outcome, replay interface{}, site string, size int) {
	idx := r.addCase(caseTerm, "proto/"+class)
	r.res.Count("proto/"+class, o.kind, fmt.Sprintf("p/%s/%s/%d", class, o.kind, size/512), false)
	if o.kind == "panic" {
		r.fail(site, class, fmt.Sprintf("conversion panicked: %v", o.perr), idx, replay)
	}
	if o.kind == "ok" {
		for _, l := range limits(o.val) {
			r.fail(l.site, l.class, l.what, idx, replay)
		}
	}
	if len(r.res.Samples) < 6 && o.kind != "ok" {
		r.res.Sample(map[string]interface{}{"serializer": "protobuf", "class": class, "outcome": o.kind})
	}
}

// treeToKind runs the exported To* function of a value kind on a tree.
func (r *run) treeToKind(k *kind, tree proto.Message, class string) {
	o := guard(func() (string, interface{}, error) { return k.to(tree) })
	ren := k.ren(tree)
	r.observe(hx.App("PTo", hx.App(k.name, ren), o.obs(k.v)), class, o, ren, "protobuf.To/"+k.name, len(ren))
}

// envThroughDecode marshals the tree, frames it and hands it to Serializer().Decode.
func (r *run) envThroughDecode(tree *pb.Envelope, class string, withNorm bool) {
	ren, ok := Env(tree)
	if !ok {
		return
	}
	payload, err := proto.Marshal(tree)
	if err != nil || len(payload) > 65535 {
		r.res.Count("proto/"+class, "not-marshalable", "p/"+class+"/nm", true)
		return
	}
	o := guard(func() (string, interface{}, error) {
		e, err := ser.Decode(bytes.NewReader(frame(payload)))
		if err != nil {
			return "", nil, err
		}
		return cv.Envelope(e), e, nil
	})
	r.observe(hx.App("PTo", hx.App("TEnv", ren), o.obs("VEnv")), class, o, ren, "protobuf.Serializer.Decode", len(ren))
	if withNorm {
		t2, _ := unmarshalTree(payload)
		r.addCase(hx.App("PNorm", ren, t2[len("(Some "):len(t2)-1]), "proto/norm")
		r.res.Count("proto/norm", "ok", "p/norm/"+class, true)
	}
}

// msgDirect calls the exported To*Msg function on the oneof wrapper of the tree (when there is one).
func (r *run) msgDirect(tree *pb.Envelope, class string) {
	if tree.Msg == nil {
		return
	}
	ren, ok := Msg(tree.Msg)
	if !ok {
		return
	}
	var exported bool
	o := guard(func() (string, interface{}, error) {
		m, err, ok := toMsg(tree.Msg)
		exported = ok
		if !ok {
			return "", nil, fmt.Errorf("unexported")
		}
		if err != nil {
			return "", nil, err
		}
		return cv.Msg(m), m, nil
	})
	if !exported && o.kind != "panic" {
		return
	}
	r.observe(hx.App("PTo", hx.App("TMsg", ren), o.obs("VMsg")), class, o, ren, "protobuf.To*Msg", len(ren))
}

// edit applies a hand-written mutation; if the tree does not have the shape the mutation expects
// (possible after a change of the code under test) the mutation is skipped.
func edit(f func()) (ok bool) {
	defer func() {
		if recover() != nil {
			ok = false
		}
	}()
	f()
	return true
}

// oneofWrappers: one (empty) wrapper per message type of Envelope.Msg.
func oneofWrappers() []interface{} {
	return []interface{}{&pb.Envelope_PingMsg{}, &pb.Envelope_PongMsg{}, &pb.Envelope_ShutdownMsg{}, &pb.Envelope_AuthResponseMsg{},
		&pb.Envelope_LedgerChannelProposalMsg{}, &pb.Envelope_LedgerChannelProposalAccMsg{}, &pb.Envelope_SubChannelProposalMsg{},
		&pb.Envelope_SubChannelProposalAccMsg{}, &pb.Envelope_VirtualChannelProposalMsg{}, &pb.Envelope_VirtualChannelProposalAccMsg{},
		&pb.Envelope_ChannelProposalRejMsg{}, &pb.Envelope_ChannelUpdateMsg{}, &pb.Envelope_VirtualChannelFundingProposalMsg{},
		&pb.Envelope_VirtualChannelSettlementProposalMsg{}, &pb.Envelope_ChannelUpdateAccMsg{}, &pb.Envelope_ChannelUpdateRejMsg{},
		&pb.Envelope_ChannelSyncMsg{}}
}

func clone[T proto.Message](m T) T { return proto.Clone(m).(T) }

// RunC13 appends the protobuf cases of C13 (malformed trees and bytes). See RunC14 for the parameters.
func RunC13(seed int64, tier, out string, start int, res *hx.Result) int {
	r := newRun("C13", tier, out, start, res, 24)
	g := r.g
	rounds, perEnv, perKind, byteMuts := 1, 2, 4, 2
	thorough := tier == "thorough"
	if thorough {
		rounds, perEnv, perKind, byteMuts = 6, 6, 10, 8
	}

	// ---- named classes of the property text, present in every run ----
	al := g.Alloc(2, 2, 1)
	pal, _ := pb.FromAllocation(al)
	kAlloc, kParams, kState, kSub, kWaddr := &kinds[4], &kinds[6], &kinds[5], &kinds[3], &kinds[0]
	{
		t := clone(pal)
		if edit(func() {
			t.Backends = t.Backends[:1]
		}) {
			r.treeToKind(kAlloc, t, "named/backends-shorter-than-assets")
		}
		t = clone(pal)
		if edit(func() {
			t.Backends = nil
		}) {
			r.treeToKind(kAlloc, t, "named/backends-shorter-than-assets")
		}
		t = clone(pal)
		if edit(func() {
			t.Backends = append(t.Backends, []byte{0, 0, 0, 0})
		}) {
			r.treeToKind(kAlloc, t, "named/backends-longer-than-assets")
		}
		t = clone(pal)
		if edit(func() {
			t.Backends[1] = []byte{0, 0, 0, 9}
		}) {
			r.treeToKind(kAlloc, t, "named/unknown-backend")
		}
		t = clone(pal)
		if edit(func() {
			t.Backends[0] = []byte{0xff, 0xff, 0xff, 0xff}
		}) {
			r.treeToKind(kAlloc, t, "named/negative-backend")
		}
		t = clone(pal)
		if edit(func() {
			for _, row := range t.Balances.Balances {
				row.Balance = nil
			}
		}) {
			r.treeToKind(kAlloc, t, "named/zero-participants")
		}
		t = clone(pal)
		if edit(func() {
			t.Balances = nil
		}) {
			r.treeToKind(kAlloc, t, "named/nil-sub-message")
		}
		t = clone(pal)
		if edit(func() {
			t.Locked[0] = nil
		}) {
			r.treeToKind(kAlloc, t, "named/nil-sub-message")
		}
		t = clone(pal)
		if edit(func() {
			t.Locked[0].Id = t.Locked[0].Id[:31]
		}) {
			r.treeToKind(kAlloc, t, "named/short-id")
		}
		t = clone(pal)
		if edit(func() {
			t.Balances.Balances[0].Balance = t.Balances.Balances[0].Balance[:1]
		}) {
			r.treeToKind(kAlloc, t, "named/ragged-balances")
		}
		t = clone(pal)
		if edit(func() {
			t.Backends, t.Assets, t.Locked = t.Backends[:1], t.Assets[:1], nil // one asset: 1025 participants are the only fault
			t.Balances.Balances = t.Balances.Balances[:1]
			t.Balances.Balances[0].Balance = make([][]byte, 1025)
		}) {
			r.treeToKind(kAlloc, t, "named/huge-count-participants")
		}
		t = clone(pal)
		if edit(func() {
			t.Balances.Balances[1].Balance[0] = bytes.Repeat([]byte{0x7f}, 129)
		}) {
			r.treeToKind(kAlloc, t, "named/bigint-129-bytes")
		}
		r.treeToKind(kAlloc, (*pb.Allocation)(nil), "named/nil-sub-message")
		r.treeToKind(kSub, (*pb.SubAlloc)(nil), "named/nil-sub-message")
		r.treeToKind(kState, (*pb.State)(nil), "named/nil-sub-message")
		r.treeToKind(kParams, (*pb.Params)(nil), "named/nil-sub-message")
		r.treeToKind(kWaddr, &pb.Address{AddressMapping: []*pb.AddressMapping{nil}}, "named/nil-sub-message")
		r.treeToKind(kWaddr, &pb.Address{AddressMapping: []*pb.AddressMapping{{Key: []byte{0, 0, 0, 9}, Address: make([]byte, 64)}}}, "named/unknown-backend")
		r.treeToKind(kWaddr, &pb.Address{AddressMapping: []*pb.AddressMapping{{Key: []byte{0xff, 0xff, 0xff, 0xff}, Address: make([]byte, 64)}}}, "named/negative-backend")
		r.treeToKind(kWaddr, &pb.Address{AddressMapping: []*pb.AddressMapping{{Key: []byte{0, 0}, Address: make([]byte, 64)}}}, "named/short-id")
		pp, _ := pb.FromParams(g.Params(2))
		p := clone(pp)
		if edit(func() {
			p.Parts = nil
		}) {
			r.treeToKind(kParams, p, "named/zero-participants")
		}
		p = clone(pp)
		if edit(func() {
			p.Parts[0] = &pb.Address{}
		}) {
			r.treeToKind(kParams, p, "named/participant-without-address")
		}
		p = clone(pp)
		if edit(func() {
			p.Parts[1] = nil
		}) {
			r.treeToKind(kParams, p, "named/nil-sub-message")
		}
		p = clone(pp)
		if edit(func() {
			p.Nonce = bytes.Repeat([]byte{1}, 33)
		}) {
			r.treeToKind(kParams, p, "named/long-nonce")
		}
		p = clone(pp)
		if edit(func() {
			p.Nonce = bytes.Repeat([]byte{1}, 200)
		}) {
			r.treeToKind(kParams, p, "named/long-nonce")
		}
		p = clone(pp)
		if edit(func() {
			p.ChallengeDuration = 0
		}) {
			r.treeToKind(kParams, p, "named/zero-challenge-duration")
		}
		p = clone(pp)
		if edit(func() {
			p.Parts = p.Parts[:1]
		}) {
			r.treeToKind(kParams, p, "named/one-participant")
		}
		if thorough {
			p = clone(pp)
			if edit(func() {
				for len(p.Parts) < 1025 {
					p.Parts = append(p.Parts, p.Parts[0])
				}
			}) {
				r.treeToKind(kParams, p, "named/huge-count-participants")
			}
		}
		// every message wrapper with a nil inner message, and the empty envelope / zero-length frame
		for _, w := range oneofWrappers() {
			e := &pb.Envelope{}
			reflect.ValueOf(e).Elem().FieldByName("Msg").Set(reflect.ValueOf(w))
			r.msgDirect(e, "named/nil-inner-message")
			r.envThroughDecode(e, "named/nil-inner-message", true)
		}
		r.envThroughDecode(&pb.Envelope{}, "named/empty-envelope", true)
		// messages whose participants exceed the documented limit although each part is valid
		if thorough {
			for _, t := range []wire.Type{wire.LedgerChannelProposal, wire.VirtualChannelProposal} {
				_, _, tr := encodeTree(pwfEnvelope(g, t))
				switch m := tr.Msg.(type) {
				case *pb.Envelope_LedgerChannelProposalMsg:
					for len(m.LedgerChannelProposalMsg.Peers) < 1025 {
						m.LedgerChannelProposalMsg.Peers = append(m.LedgerChannelProposalMsg.Peers, m.LedgerChannelProposalMsg.Peers[0])
					}
				case *pb.Envelope_VirtualChannelProposalMsg:
					for len(m.VirtualChannelProposalMsg.Peers) < 1025 {
						m.VirtualChannelProposalMsg.Peers = append(m.VirtualChannelProposalMsg.Peers, m.VirtualChannelProposalMsg.Peers[0])
					}
				}
				r.msgDirect(tr, "named/huge-count-peers")
			}
		}
		// funding agreement above the limits, big integers above 128 bytes in a proposal
		{
			_, _, tr := encodeTree(pwfEnvelope(g, wire.SubChannelProposal))
			bp := tr.Msg.(*pb.Envelope_SubChannelProposalMsg).SubChannelProposalMsg.BaseChannelProposal
			bp.FundingAgreement = &pb.Balances{Balances: make([]*pb.Balance, 1025)}
			r.msgDirect(tr, "named/huge-count-funding-agreement")
			_, _, tr = encodeTree(pwfEnvelope(g, wire.SubChannelProposal))
			bp = tr.Msg.(*pb.Envelope_SubChannelProposalMsg).SubChannelProposalMsg.BaseChannelProposal
			bp.InitBals.Balances.Balances[0].Balance[0] = bytes.Repeat([]byte{0x55}, 130)
			r.msgDirect(tr, "named/bigint-130-bytes")
		}
	}

	// ---- the count of every repeated field varied on its own ----
	r.countSweep()

	// ---- random structural mutations of well-formed trees ----
	for round := 0; round < rounds; round++ {
		for ki := range kinds {
			k := &kinds[ki]
			val, _ := k.gen(g)
			base, _, err := k.from(val)
			if err != nil {
				continue
			}
			for m := 0; m < perKind; m++ {
				t := proto.Clone(base)
				label := ""
				for j := 0; j <= g.R.Intn(2); j++ {
					label = mutate(g.R, t, thorough && g.R.Intn(80) == 0)
				}
				r.treeToKind(k, t, "mutated-tree/"+k.name+"/"+label)
			}
		}
		for t := wire.Type(0); t < wire.LastType; t++ {
			e := pwfEnvelope(g, t)
			if !thorough && (t == wire.VirtualChannelFundingProposal || t == wire.VirtualChannelSettlementProposal) && round == 0 {
				// the two largest messages: fewer mutants in the quick tier (text size)
				e = pwfEnvelope(g, t)
			}
			oe, fr, tree := encodeTree(e)
			if oe.kind != "ok" {
				continue
			}
			class := msgClass(e)
			n := perEnv
			if !thorough && len(fr) > 1200 {
				n = 1
			}
			for m := 0; m < n; m++ {
				tr := clone(tree)
				label := ""
				for j := 0; j <= g.R.Intn(2); j++ {
					label = mutate(g.R, tr, thorough && g.R.Intn(80) == 0)
				}
				if m%2 == 0 {
					r.msgDirect(tr, "mutated-tree/"+class+"/"+label)
				} else {
					r.envThroughDecode(tr, "mutated-tree/"+class+"/"+label, thorough && g.R.Intn(4) == 0)
				}
			}
			// mutated marshalled bytes (the length prefix is kept consistent unless it is the target)
			if !thorough && len(fr) > 400 {
				continue
			}
			for m := 0; m < byteMuts; m++ {
				payload := append([]byte{}, fr[2:]...)
				var stream []byte
				label := ""
				switch g.R.Intn(5) {
				case 0:
					label = "bitflip"
					payload[g.R.Intn(len(payload))] ^= 1 << uint(g.R.Intn(8))
					stream = frame(payload)
				case 1:
					label = "overwrite"
					pat := bytePatterns[1+g.R.Intn(len(bytePatterns)-1)]
					copy(payload[g.R.Intn(len(payload)):], pat)
					stream = frame(payload)
				case 2:
					label = "truncated-payload"
					stream = frame(payload[:g.R.Intn(len(payload))])
				case 3:
					label = "length-prefix"
					stream = append([]byte{}, fr...)
					stream[g.R.Intn(2)] ^= 1 << uint(g.R.Intn(8))
				default:
					label = "truncated-stream"
					stream = append([]byte{}, fr[:g.R.Intn(len(fr))]...)
				}
				envs, vals, fin, perr := decodeAll([][]byte{stream})
				o := outcome{kind: fin, perr: perr}
				if fin == "ok" && len(vals) > 0 {
					o.val = vals[0]
				}
				r.observe(streamCase(stream, [][]byte{stream}, envs, fin), "mutated-bytes/"+label, o, fmt.Sprintf("%x", stream), "protobuf.Serializer.Decode", len(stream))
			}
		}
		// random bytes behind a length prefix
		for m := 0; m < 3; m++ {
			rb := make([]byte, g.R.Intn(60))
			g.R.Read(rb)
			stream := frame(rb)
			envs, _, fin, perr := decodeAll([][]byte{stream})
			idx := r.addCase(streamCase(stream, [][]byte{stream}, envs, fin), "proto/random-bytes")
			res.Count("proto/random-bytes", fin, "p/random/"+fin, true)
			if fin == "panic" {
				r.fail("protobuf.Serializer.Decode", "random-bytes", fmt.Sprintf("decoder panicked: %v", perr), idx, fmt.Sprintf("%x", stream))
			}
		}
	}
	r.w.flush()
	res.Rule += " || protobuf: message trees built as Go structs (named classes: backends shorter/longer than assets, unknown and negative backend ids, zero participants, nil sub-messages at every level, short ids, ragged balances, counts above the limits, long nonces, every message with a nil inner message, the empty envelope) and 1-2 random structural mutations of well-formed trees, handed to the exported To* functions and, marshalled and framed, to Serializer().Decode; mutated marshalled bytes (bit flips, overwrites, truncations, length prefix) and random bytes; every call under recover; outcome class ok(value)/err/panic compared with to_X of the model; oracle: no panic, no accepted value above a documented limit"
	return r.w.next()
}

// pipeRecv sends the chunks through a net.Pipe (one Write per chunk) and receives `count` envelopes with
// wire/net.NewIoConn over the protobuf serializer.
func pipeRecv(chunks [][]byte, count int) (got []string, ok bool) {
	a, b := net.Pipe()
	defer a.Close()
	defer b.Close()
	_ = b.SetReadDeadline(time.Now().Add(20 * time.Second))
	go func() {
		for _, c := range chunks {
			if _, err := a.Write(c); err != nil {
				return
			}
		}
	}()
	conn := wirenet.NewIoConn(b, ser)
	for i := 0; i < count; i++ {
		e, err := conn.Recv()
		if err != nil {
			return got, false
		}
		got = append(got, cv.Envelope(e))
	}
	return got, true
}

// RunC16 appends the protobuf cases of C16 (frames over chunking readers). See RunC14 for the parameters.
func RunC16(seed int64, tier, out string, start int, res *hx.Result) int {
	r := newRun("C16", tier, out, start, res, 4)
	g := r.g
	n := 14
	if tier == "thorough" {
		n = 300
	}
	small := []wire.Type{wire.Ping, wire.Pong, wire.Shutdown, wire.AuthResponse, wire.LedgerChannelProposalAcc, wire.SubChannelProposalAcc,
		wire.VirtualChannelProposalAcc, wire.ChannelProposalRej, wire.ChannelUpdateAcc, wire.ChannelUpdateRej}
	for it := 0; it < n; it++ {
		cls := it % 7
		cnt := 1 + g.R.Intn(3)
		var stream []byte
		var want []string
		var bounds []int
		for i := 0; i < cnt; i++ {
			t := wire.Type(g.R.Intn(int(wire.LastType)))
			if cls == 1 || (tier != "thorough" && cls != 2 && g.R.Intn(3) != 0) { // keep the quick tier's text small
				t = small[g.R.Intn(len(small))]
			}
			e := pwfEnvelope(g, t)
			oe, fr, _ := encodeTree(e)
			if oe.kind != "ok" {
				continue
			}
			stream = append(stream, fr...)
			bounds = append(bounds, len(stream))
			want = append(want, cv.Envelope(e))
		}
		if len(stream) < 4 {
			continue
		}
		var cuts []int
		class := ""
		switch cls {
		case 0:
			class = "whole"
		case 1:
			class = "single-bytes"
			for i := 1; i < len(stream); i++ {
				cuts = append(cuts, i)
			}
		case 2:
			class = "mss-1460"
			for i := 1460; i < len(stream); i += 1460 {
				cuts = append(cuts, i)
			}
		case 3:
			class = "frame-in-two"
			cuts = []int{3 + g.R.Intn(bounds[0]-3)}
		case 4:
			class = "small-chunks"
			for i := 1 + g.R.Intn(40); i < len(stream); i += 1 + g.R.Intn(40) {
				cuts = append(cuts, i)
			}
		case 5:
			class = "length-prefix-split"
			cuts = []int{1}
			for _, b := range bounds[:len(bounds)-1] {
				cuts = append(cuts, b-1, b+1)
			}
		default:
			class = "random"
			for i := 1 + g.R.Intn(300); i < len(stream); i += 1 + g.R.Intn(300) {
				cuts = append(cuts, i)
			}
		}
		chunks := split(stream, cuts)
		got, _, fin, perr := decodeAll(chunks)
		idx := r.addCase(streamCase(stream, chunks, got, fin), "pframe/"+class)
		res.Count("pframe/"+class, fmt.Sprintf("decoded=%d/%d", len(got), len(want)), fmt.Sprintf("p/%s/%d/%d/%d", class, len(want), len(got), len(chunks)/8), false)
		res.Sample(map[string]interface{}{"serializer": "protobuf", "class": class, "envelopes": len(want), "stream_bytes": len(stream), "chunks": len(chunks)})
		// oracle: the envelopes of the unchunked decode, in order, and nothing else
		whole, _, wfin, _ := decodeAll([][]byte{stream})
		same := fin == "ok" && wfin == "ok" && len(got) == len(want) && len(whole) == len(want)
		for i := 0; same && i < len(want); i++ {
			same = got[i] == want[i] && whole[i] == want[i]
		}
		// the same chunks through wire/net.ioConn over a net.Pipe (oracle only: same model)
		if pg, pok := pipeRecv(chunks, len(want)); !pok || strings.Join(pg, ";") != strings.Join(want, ";") {
			r.fail("wire/net.ioConn.Recv(protobuf)", class, fmt.Sprintf("pipe delivery decoded %d of %d protobuf frames", len(pg), len(want)), idx,
				map[string]interface{}{"stream": fmt.Sprintf("%x", stream), "cuts": cuts})
		}
		if !same {
			r.fail("protobuf.Serializer.Decode", class, fmt.Sprintf("chunked delivery decoded %d of %d envelopes (end: %s %v; unchunked: %d, %s)", len(got), len(want), fin, perr, len(whole), wfin), idx,
				map[string]interface{}{"stream": fmt.Sprintf("%x", stream), "cuts": cuts})
		}
	}
	r.w.flush()
	res.Rule += " || protobuf: streams of 1-3 framed envelopes through a chunking io.Reader (whole, single bytes, 1460-byte segments, a frame split in two, 1-40 byte chunks, cuts inside and around every length prefix, random chunks); decoded envelopes and the end of the stream compared with run_chunked of the model frame decoder (payload -> tree table from the real proto.Unmarshal); oracle: the envelopes that were sent, in order, as in the unchunked decode"
	return r.w.next()
}
