package protoc

import (
	"bytes"
	"fmt"
	"io"
	"math/big"
	"math/rand"
	"os"
	"path/filepath"
	"strings"
	"unicode/utf8"

	"google.golang.org/protobuf/proto"
	"perun.network/go-perun/channel"
	"perun.network/go-perun/client"
	"perun.network/go-perun/wallet"
	"perun.network/go-perun/wire"
	perunioser "perun.network/go-perun/wire/perunio/serializer"
	pb "perun.network/go-perun/wire/protobuf"
	"verif/harness/internal/cv"
	"verif/harness/internal/hx"
)

// ---------- case files: cases_pNNN.v, indices continue after the native cases ----------

type writer struct {
	dir    string
	cases  []string
	nfiles int
	base   int // index of the first case of the current file
	per    int
	bytes  int
}

func (w *writer) add(c string) int {
	w.cases = append(w.cases, c)
	w.bytes += len(c)
	idx := w.base + len(w.cases) - 1
	if len(w.cases) >= w.per {
		w.flush()
	}
	return idx
}

func (w *writer) next() int { return w.base + len(w.cases) }

func (w *writer) flush() {
	if len(w.cases) == 0 {
		return
	}
	var sb strings.Builder
	sb.WriteString("From V Require Import Run.Compare_Proto.\nOpen Scope list_scope.\n")
	pd, _ := cv.PayDef.MarshalBinary()
	md, _ := cv.MockDef.MarshalBinary()
	fmt.Fprintf(&sb, "Definition RS := mk_resolver %s %s.\n", hx.Hex(pd), hx.Hex(md))
	fmt.Fprintf(&sb, "Definition cases := [\n%s\n].\n", strings.Join(w.cases, ";\n"))
	fmt.Fprintf(&sb, "Definition M := Eval vm_compute in pmismatches RS %d%%nat cases.\nPrint M.\n", w.base)
	if err := os.WriteFile(filepath.Join(w.dir, fmt.Sprintf("cases_p%03d.v", w.nfiles)), []byte(sb.String()), 0o644); err != nil {
		panic(err)
	}
	w.nfiles++
	w.base += len(w.cases)
	w.cases = nil
}

// ---------- running the real code ----------

type outcome struct {
	kind string // "ok", "err", "panic"
	term string // rendered value when ok
	val  interface{}
	perr interface{}
}

func guard(f func() (string, interface{}, error)) (o outcome) {
	defer func() {
		if r := recover(); r != nil {
			o = outcome{kind: "panic", perr: r}
		}
	}()
	t, v, err := f()
	if err != nil {
		return outcome{kind: "err", perr: err}
	}
	return outcome{kind: "ok", term: t, val: v}
}

func (o outcome) obs(ctor string) string {
	switch o.kind {
	case "ok":
		return hx.App("POk", hx.App(ctor, o.term))
	case "err":
		return "PErr"
	}
	return "PPanic"
}

var ser = pb.Serializer()

func frame(payload []byte) []byte {
	return append([]byte{byte(len(payload) >> 8), byte(len(payload))}, payload...)
}

// unmarshalTree is the trusted proto.Unmarshal: the tree (rendered) of a payload, "None" on error.
func unmarshalTree(payload []byte) (string, *pb.Envelope) {
	var e pb.Envelope
	if err := proto.Unmarshal(payload, &e); err != nil {
		return "None", nil
	}
	t, ok := Env(&e)
	if !ok {
		panic("unmarshal produced a typed-nil oneof")
	}
	return some(t), &e
}

// table lists (payload, tree) for every frame a decoder reading `stream` from its start can reach.
func table(stream []byte) string {
	var items []string
	seen := map[string]bool{}
	for len(stream) >= 2 {
		n := int(stream[0])<<8 | int(stream[1])
		if len(stream) < 2+n {
			break
		}
		p := stream[2 : 2+n]
		if !seen[string(p)] {
			seen[string(p)] = true
			t, _ := unmarshalTree(p)
			items = append(items, "("+hx.Hex(p)+", "+t+")")
		}
		stream = stream[2+n:]
	}
	return hx.List(items)
}

// chunkReader delivers the stream in the given chunks: one Read never crosses a chunk boundary.
type chunkReader struct{ chunks [][]byte }

func (c *chunkReader) Read(p []byte) (int, error) {
	for len(c.chunks) > 0 && len(c.chunks[0]) == 0 {
		c.chunks = c.chunks[1:]
	}
	if len(c.chunks) == 0 {
		return 0, io.EOF
	}
	if len(p) == 0 {
		return 0, nil
	}
	n := copy(p, c.chunks[0])
	c.chunks[0] = c.chunks[0][n:]
	return n, nil
}

func (c *chunkReader) empty() bool {
	for _, ch := range c.chunks {
		if len(ch) > 0 {
			return false
		}
	}
	return true
}

func split(bs []byte, cuts []int) [][]byte {
	var out [][]byte
	prev := 0
	for _, c := range cuts {
		if c > prev && c < len(bs) {
			out = append(out, bs[prev:c])
			prev = c
		}
	}
	if prev < len(bs) {
		out = append(out, bs[prev:])
	}
	return out
}

// decodeAll runs Serializer().Decode on the chunked stream until it is used up.
func decodeAll(chunks [][]byte) (envs []string, vals []*wire.Envelope, fin string, perr interface{}) {
	rd := &chunkReader{chunks: append([][]byte{}, chunks...)}
	fin = "ok"
	for !rd.empty() {
		o := guard(func() (string, interface{}, error) {
			e, err := ser.Decode(rd)
			if err != nil {
				return "", nil, err
			}
			return cv.Envelope(e), e, nil
		})
		if o.kind != "ok" {
			return envs, vals, o.kind, o.perr
		}
		envs = append(envs, o.term)
		vals = append(vals, o.val.(*wire.Envelope))
	}
	return envs, vals, fin, nil
}

func finTerm(fin string) string {
	switch fin {
	case "ok":
		return "(POk tt)"
	case "err":
		return "PErr"
	}
	return "PPanic"
}

func streamCase(stream []byte, chunks [][]byte, envs []string, fin string) string {
	var ne [][]byte // the reader contract: a chunk is at least one byte
	for _, c := range chunks {
		if len(c) > 0 {
			ne = append(ne, c)
		}
	}
	chunks = ne
	return hx.App("PStream", table(stream), hx.ListOf(chunks, hx.Hex), hx.List(envs), finTerm(fin))
}

// ---------- well-formed inputs for the protobuf serializer ----------

var reasons = []string{"", "rejected", "nonce too small", "zu wenig Guthaben für Kanal", "余额不足", "x"}

// pwfEnvelope returns a well-formed envelope of type t that the protobuf serializer can carry:
// reasons are valid UTF-8, a sync message has a state.
func pwfEnvelope(g *cv.Gen, t wire.Type) *wire.Envelope {
	for {
		e := g.Envelope(t)
		switch m := e.Msg.(type) {
		case *wire.ShutdownMsg:
			m.Reason = reasons[g.R.Intn(len(reasons))]
		case *client.ChannelProposalRejMsg:
			m.Reason = reasons[g.R.Intn(len(reasons))]
		case *client.ChannelUpdateRejMsg:
			m.Reason = reasons[g.R.Intn(len(reasons))]
		case *client.ChannelSyncMsg:
			if m.CurrentTX.State == nil {
				continue
			}
		}
		return e
	}
}

func msgClass(e *wire.Envelope) string {
	t := cv.Msg(e.Msg)
	return strings.SplitN(strings.TrimPrefix(t, "("), " ", 2)[0]
}

// ---------- limits (oracle, from the property text) ----------

func bigTooLong(b *big.Int) bool { return b != nil && len(b.Bytes()) > 128 }

func balsOver(b channel.Balances) (dims, bigint bool) {
	if len(b) > channel.MaxNumAssets {
		dims = true
	}
	for _, r := range b {
		if len(r) > channel.MaxNumParts {
			dims = true
		}
		for _, x := range r {
			if bigTooLong(x) {
				bigint = true
			}
		}
	}
	return
}

func longest(b channel.Balances) (n int) {
	for _, r := range b {
		if len(r) > n {
			n = len(r)
		}
	}
	return n
}

type limitReport struct{ site, class, what string }

func allocLimits(a *channel.Allocation, site string) (out []limitReport) {
	if a == nil {
		return nil
	}
	d, b := balsOver(a.Balances)
	if len(a.Assets) > channel.MaxNumAssets || len(a.Locked) > channel.MaxNumSubAllocations || d {
		out = append(out, limitReport{site, "allocation-over-limit", fmt.Sprintf("accepted allocation with %d assets, %d balance rows (longest: %d participants), %d sub-allocations", len(a.Assets), len(a.Balances), longest(a.Balances), len(a.Locked))})
	}
	for _, l := range a.Locked {
		if len(l.Bals) > channel.MaxNumAssets {
			out = append(out, limitReport{site, "allocation-over-limit", "accepted sub-allocation with too many balances"})
		}
		for _, x := range l.Bals {
			if bigTooLong(x) {
				b = true
			}
		}
	}
	if b {
		out = append(out, limitReport{"protobuf.ToBalance", "bigint-over-128-bytes", "accepted a balance longer than MaxBigIntLength (128 bytes)"})
	}
	return out
}

func paramsLimits(p *channel.Params) (out []limitReport) {
	if p == nil {
		return nil
	}
	if len(p.Parts) > channel.MaxNumParts || len(p.Parts) < channel.MinNumParts || len(p.Nonce.Bytes()) > channel.MaxNonceLen || p.ChallengeDuration == 0 {
		out = append(out, limitReport{"protobuf.ToParams", "params-over-limit", fmt.Sprintf("accepted parameters with %d participants, nonce of %d bytes, challenge duration %d", len(p.Parts), len(p.Nonce.Bytes()), p.ChallengeDuration)})
	}
	return out
}

func basePropLimits(b *client.BaseChannelProposal) (out []limitReport) {
	out = append(out, allocLimits(b.InitBals, "protobuf.ToAllocation")...)
	d, bi := balsOver(b.FundingAgreement)
	if d {
		out = append(out, limitReport{"protobuf.ToBaseChannelProposal", "funding-agreement-over-limit", fmt.Sprintf("accepted funding agreement with %d rows", len(b.FundingAgreement))})
	}
	if bi {
		out = append(out, limitReport{"protobuf.ToBalance", "bigint-over-128-bytes", "accepted a funding-agreement balance longer than MaxBigIntLength (128 bytes)"})
	}
	return out
}

// limits lists every documented limit an accepted value exceeds.
func limits(v interface{}) (out []limitReport) {
	switch x := v.(type) {
	case *channel.Allocation:
		return allocLimits(x, "protobuf.ToAllocation")
	case *channel.State:
		if x != nil {
			return allocLimits(&x.Allocation, "protobuf.ToAllocation")
		}
	case *channel.Params:
		return paramsLimits(x)
	case channel.Balances:
		return nil // ToBalances on its own has no error result; it is judged where it is used
	case *wire.Envelope:
		return limits(x.Msg)
	case *client.LedgerChannelProposalMsg:
		out = basePropLimits(&x.BaseChannelProposal)
		if len(x.Peers) > channel.MaxNumParts {
			out = append(out, limitReport{"protobuf.ToLedgerChannelProposalMsg", "peers-over-limit", fmt.Sprintf("accepted ledger channel proposal with %d peers", len(x.Peers))})
		}
	case *client.SubChannelProposalMsg:
		return basePropLimits(&x.BaseChannelProposal)
	case *client.VirtualChannelProposalMsg:
		out = basePropLimits(&x.BaseChannelProposal)
		if len(x.Peers) > channel.MaxNumParts {
			out = append(out, limitReport{"protobuf.ToVirtualChannelProposalMsg", "peers-over-limit", fmt.Sprintf("accepted virtual channel proposal with %d peers", len(x.Peers))})
		}
	case *client.ChannelUpdateMsg:
		return limits(x.State)
	case *client.VirtualChannelFundingProposalMsg:
		out = append(limits(x.State), limits(x.Initial.State)...)
		out = append(out, paramsLimits(x.Initial.Params)...)
	case *client.VirtualChannelSettlementProposalMsg:
		out = append(limits(x.State), limits(x.Final.State)...)
		out = append(out, paramsLimits(x.Final.Params)...)
	case *client.ChannelSyncMsg:
		return limits(x.CurrentTX.State)
	}
	return out
}

// ---------- conversions by kind (exported To*/From* functions of the package) ----------

type kind struct {
	name string // constructor of ptree
	v    string // constructor of wval
	gen  func(g *cv.Gen) (val interface{}, term string)
	from func(val interface{}) (proto.Message, string, error) // From*: tree and its rendering
	to   func(tree proto.Message) (string, interface{}, error)
	ren  func(tree proto.Message) string
}

var kinds = []kind{
	{"TWaddr", "VWamap", func(g *cv.Gen) (interface{}, string) { m := g.WAddr(); return m, cv.Wamap(m) },
		func(v interface{}) (proto.Message, string, error) {
			a, err := pb.FromWalletAddr(v.(map[wallet.BackendID]wallet.Address))
			return a, OAddr(a), err
		},
		func(t proto.Message) (string, interface{}, error) {
			m, err := pb.ToWalletAddr(t.(*pb.Address))
			if err != nil {
				return "", nil, err
			}
			return cv.Wamap(m), m, nil
		}, func(t proto.Message) string { return OAddr(t.(*pb.Address)) }},
	{"TRaddr", "VRamap", func(g *cv.Gen) (interface{}, string) { m := g.RAddr(); return m, cv.Ramap(m) },
		func(v interface{}) (proto.Message, string, error) {
			a, err := pb.FromWireAddr(v.(map[wallet.BackendID]wire.Address))
			return a, OAddr(a), err
		},
		func(t proto.Message) (string, interface{}, error) {
			m, err := pb.ToWireAddr(t.(*pb.Address))
			if err != nil {
				return "", nil, err
			}
			return cv.Ramap(m), m, nil
		}, func(t proto.Message) string { return OAddr(t.(*pb.Address)) }},
	{"TBals", "VBals", func(g *cv.Gen) (interface{}, string) {
		a := g.Alloc(g.R.Intn(4), 1+g.R.Intn(4), 0)
		return a.Balances, cv.Bals(a.Balances)
	},
		func(v interface{}) (proto.Message, string, error) {
			b, err := pb.FromBalances(v.(channel.Balances))
			return b, OBalances(b), err
		},
		func(t proto.Message) (string, interface{}, error) {
			b := pb.ToBalances(t.(*pb.Balances))
			return cv.Bals(b), b, nil
		}, func(t proto.Message) string { return OBalances(t.(*pb.Balances)) }},
	{"TSub", "VSub", func(g *cv.Gen) (interface{}, string) { s := g.SubAlloc(1 + g.R.Intn(3)); return s, cv.SubAlloc(s) },
		func(v interface{}) (proto.Message, string, error) {
			s, err := pb.FromSubAlloc(v.(channel.SubAlloc))
			return s, OSubAlloc(s), err
		},
		func(t proto.Message) (string, interface{}, error) {
			s, err := pb.ToSubAlloc(t.(*pb.SubAlloc))
			if err != nil {
				return "", nil, err
			}
			return cv.SubAlloc(s), s, nil
		}, func(t proto.Message) string { return OSubAlloc(t.(*pb.SubAlloc)) }},
	{"TAlloc", "VAlloc", func(g *cv.Gen) (interface{}, string) {
		a := g.Alloc(1+g.R.Intn(3), 1+g.R.Intn(4), g.R.Intn(3))
		return a, cv.Alloc(a)
	},
		func(v interface{}) (proto.Message, string, error) {
			a, err := pb.FromAllocation(v.(channel.Allocation))
			return a, OAlloc(a), err
		},
		func(t proto.Message) (string, interface{}, error) {
			a, err := pb.ToAllocation(t.(*pb.Allocation))
			if err != nil {
				return "", nil, err
			}
			return cv.Alloc(*a), a, nil
		}, func(t proto.Message) string { return OAlloc(t.(*pb.Allocation)) }},
	{"TState", "VState", func(g *cv.Gen) (interface{}, string) { s := g.State(); return s, cv.State(s) },
		func(v interface{}) (proto.Message, string, error) {
			s, err := pb.FromState(v.(*channel.State))
			return s, OState(s), err
		},
		func(t proto.Message) (string, interface{}, error) {
			s, err := pb.ToState(t.(*pb.State))
			if err != nil {
				return "", nil, err
			}
			return cv.State(s), s, nil
		}, func(t proto.Message) string { return OState(t.(*pb.State)) }},
	{"TParams", "VParams", func(g *cv.Gen) (interface{}, string) { p := g.Params(2 + g.R.Intn(3)); return p, cv.Params(p) },
		func(v interface{}) (proto.Message, string, error) {
			p, err := pb.FromParams(v.(*channel.Params))
			return p, OParams(p), err
		},
		func(t proto.Message) (string, interface{}, error) {
			p, err := pb.ToParams(t.(*pb.Params))
			if err != nil {
				return "", nil, err
			}
			return cv.Params(p), p, nil
		}, func(t proto.Message) string { return OParams(t.(*pb.Params)) }},
}

// toMsg calls the exported conversion of a oneof wrapper; ok=false for the five unexported ones.
func toMsg(w interface{}) (m wire.Msg, err error, ok bool) {
	switch x := w.(type) {
	case *pb.Envelope_LedgerChannelProposalMsg:
		m, err = pb.ToLedgerChannelProposalMsg(x)
	case *pb.Envelope_SubChannelProposalMsg:
		m, err = pb.ToSubChannelProposalMsg(x)
	case *pb.Envelope_VirtualChannelProposalMsg:
		m, err = pb.ToVirtualChannelProposalMsg(x)
	case *pb.Envelope_LedgerChannelProposalAccMsg:
		m, err = pb.ToLedgerChannelProposalAccMsg(x)
	case *pb.Envelope_SubChannelProposalAccMsg:
		m = pb.ToSubChannelProposalAccMsg(x)
	case *pb.Envelope_VirtualChannelProposalAccMsg:
		m, err = pb.ToVirtualChannelProposalAccMsg(x)
	case *pb.Envelope_ChannelProposalRejMsg:
		m = pb.ToChannelProposalRejMsg(x)
	case *pb.Envelope_ChannelUpdateMsg:
		m, err = pb.ToChannelUpdateMsg(x)
	case *pb.Envelope_VirtualChannelFundingProposalMsg:
		m, err = pb.ToVirtualChannelFundingProposalMsg(x)
	case *pb.Envelope_VirtualChannelSettlementProposalMsg:
		m, err = pb.ToVirtualChannelSettlementProposalMsg(x)
	case *pb.Envelope_ChannelUpdateAccMsg:
		m = pb.ToChannelUpdateAccMsg(x)
	case *pb.Envelope_ChannelUpdateRejMsg:
		m = pb.ToChannelUpdateRejMsg(x)
	default:
		return nil, nil, false
	}
	return m, err, true
}

// encodeTree: Encode the envelope with the protobuf serializer and return frame, payload, tree.
func encodeTree(e *wire.Envelope) (o outcome, fr []byte, tree *pb.Envelope) {
	o = guard(func() (string, interface{}, error) {
		var buf bytes.Buffer
		if err := ser.Encode(&buf, e); err != nil {
			return "", nil, err
		}
		return "", buf.Bytes(), nil
	})
	if o.kind != "ok" {
		return o, nil, nil
	}
	fr = o.val.([]byte)
	t, tr := unmarshalTree(fr[2:])
	if tr == nil {
		return outcome{kind: "err", perr: "unmarshal of own encoding failed"}, fr, nil
	}
	o.term = strings.TrimSuffix(strings.TrimPrefix(t, "(Some "), ")")
	return o, fr, tr
}

type run struct {
	g    *cv.Gen
	w    *writer
	res  *hx.Result
	prop string
}

func (r *run) addCase(term, label string) int {
	idx := r.w.add(term)
	r.res.CaseIndex = append(r.res.CaseIndex, label)
	return idx
}

func (r *run) fail(site, class, what string, idx int, replay interface{}) {
	r.res.Fail(hx.Failure{Site: site, InputClass: class, What: what, Case: idx, Replay: replay})
}

func newRun(prop string, tier, out string, start int, res *hx.Result, per int) *run {
	if hx.Rng == nil {
		panic("hx.Seed not called")
	}
	return &run{g: &cv.Gen{R: rand.New(rand.NewSource(hx.Rng.Int63()))}, w: &writer{dir: out, base: start, per: per}, res: res, prop: prop}
}

// ---------- C14 ----------

// RunC14 appends the protobuf cases of C14 to the cases written by the native driver: the cases are
// numbered from `start`, written to out/cases_pNNN.v, counted in res. It returns the next free index.
func RunC14(seed int64, tier, out string, start int, res *hx.Result) int {
	r := newRun("C14", tier, out, start, res, 6)
	iters := 1
	if tier == "thorough" {
		iters = 30
	}
	nat := perunioser.Serializer()
	check := func(e *wire.Envelope, class string, full bool) {
		term := cv.Envelope(e)
		oe, fr, _ := encodeTree(e)
		var nbuf bytes.Buffer
		nerr := nat.Encode(&nbuf, e)
		if oe.kind != "ok" || nerr != nil {
			idx := r.addCase(hx.App("PFrom", hx.App("VEnv", term), oe.obs("TEnv")), "proto/agree/"+class)
			res.Count("proto/agree/"+class, "encode-"+oe.kind, "pagree/"+class+"/"+oe.kind, false)
			r.fail("protobuf.Serializer.Encode", class, fmt.Sprintf("encoding a well-formed envelope failed: %s %v / native %v", oe.kind, oe.perr, nerr), idx, term)
			return
		}
		var idx int
		if full {
			idx = r.addCase(hx.App("PAgree", term, oe.term, hx.Hex(fr), hx.Hex(nbuf.Bytes())), "proto/agree/"+class)
		} else { // the tree only (less case text); decode and agreement are judged by the oracle below
			idx = r.addCase(hx.App("PFrom", hx.App("VEnv", term), hx.App("POk", hx.App("TEnv", oe.term))), "proto/agree/"+class)
		}
		res.Sample(map[string]interface{}{"serializer": "protobuf", "message": class, "frame_bytes": len(fr), "native_bytes": nbuf.Len()})
		// oracle: exact consumption, equal value, agreement
		extra := make([]byte, 1+r.g.R.Intn(3))
		r.g.R.Read(extra)
		rd := bytes.NewReader(append(append([]byte{}, fr...), extra...))
		od := guard(func() (string, interface{}, error) {
			d, err := ser.Decode(rd)
			if err != nil {
				return "", nil, err
			}
			return cv.Envelope(d), d, nil
		})
		on := guard(func() (string, interface{}, error) {
			d, err := nat.Decode(bytes.NewReader(nbuf.Bytes()))
			if err != nil {
				return "", nil, err
			}
			return cv.Envelope(d), d, nil
		})
		res.Count("proto/agree/"+class, od.kind, fmt.Sprintf("pagree/%s/%s/%d", class, od.kind, len(fr)/256), false)
		if od.kind != "ok" || od.term != term {
			// the PAgree case checks the model against e; what Go decoded instead is compared here
			r.addCase(hx.App("PTo", hx.App("TEnv", oe.term), od.obs("VEnv")), "proto/agree/"+class+"/decoded")
		}
		switch {
		case int(fr[0])<<8|int(fr[1]) != len(fr)-2:
			r.fail("protobuf.writeEnvelope", class, "length prefix differs from the payload length", idx, term)
		case od.kind != "ok":
			r.fail("protobuf.Serializer.Decode", class, fmt.Sprintf("decoding the encoding of a well-formed envelope: %s %v", od.kind, od.perr), idx, term)
		case od.term != term:
			r.fail("protobuf.Serializer.Decode", class, "decode(encode e) differs from e", idx, map[string]string{"e": term, "decoded": od.term})
		case rd.Len() != len(extra):
			r.fail("protobuf.Serializer.Decode", class, fmt.Sprintf("decoder left %d bytes unread, %d follow the frame", rd.Len(), len(extra)), idx, term)
		case on.kind != "ok" || on.term != od.term:
			r.fail("protobuf.Serializer.Decode", class, "protobuf and native serializer decode to different messages", idx, map[string]string{"protobuf": od.term, "native": on.term})
		}
	}
	for it := 0; it < iters; it++ {
		// value kinds through the exported From*/To* functions
		for ki := range kinds {
			k := &kinds[ki]
			val, term := k.gen(r.g)
			var tree proto.Message
			of := guard(func() (string, interface{}, error) {
				t, s, err := k.from(val)
				if err != nil {
					return "", nil, err
				}
				tree = t
				return s, t, nil
			})
			idx := r.addCase(hx.App("PFrom", hx.App(k.v, term), of.obs(k.name)), "proto/from/"+k.name)
			res.Count("proto/from/"+k.name, of.kind, fmt.Sprintf("pfrom/%s/%s/%d", k.name, of.kind, len(term)/256), false)
			if of.kind != "ok" {
				r.fail("protobuf.From/"+k.name, "well-formed", fmt.Sprintf("converting a well-formed value failed: %s %v", of.kind, of.perr), idx, term)
				continue
			}
			ot := guard(func() (string, interface{}, error) { return k.to(tree) })
			idx = r.addCase(hx.App("PTo", hx.App(k.name, k.ren(tree)), ot.obs(k.v)), "proto/to/"+k.name)
			res.Count("proto/to/"+k.name, ot.kind, fmt.Sprintf("pto/%s/%s/%d", k.name, ot.kind, len(term)/256), false)
			switch {
			case ot.kind != "ok":
				r.fail("protobuf.To/"+k.name, "well-formed", fmt.Sprintf("converting back the tree of a well-formed value: %s %v", ot.kind, ot.perr), idx, term)
			case ot.term != term:
				r.fail("protobuf.To/"+k.name, "well-formed", "To(From(v)) differs from v", idx, map[string]string{"v": term, "back": ot.term})
			}
		}
		// all 17 message types through the serializer and real bytes; agreement with the native serializer
		for t := wire.Type(0); t < wire.LastType; t++ {
			e := pwfEnvelope(r.g, t)
			check(e, msgClass(e), true)
		}
		if it%5 == 0 {
			r.wfPatterns(check)
		}
		// what the protobuf serializer cannot carry (documented envelope of the format): not UTF-8, no state
		bad := &wire.Envelope{Sender: r.g.RAddr(), Recipient: r.g.RAddr(), Msg: &client.ChannelSyncMsg{Phase: channel.Phase(r.g.R.Intn(12))}}
		ob, _, _ := encodeTree(bad)
		r.addCase(hx.App("PFrom", hx.App("VEnv", cv.Envelope(bad)), ob.obs("TEnv")), "proto/not-carried/sync-without-state")
		res.Count("proto/not-carried/sync-without-state", "encode-"+ob.kind, "pnc/sync/"+ob.kind, false)
		rb := make([]byte, 1+r.g.R.Intn(8))
		r.g.R.Read(rb)
		if !utf8.Valid(rb) {
			ou, _, _ := encodeTree(&wire.Envelope{Sender: r.g.RAddr(), Recipient: r.g.RAddr(), Msg: &wire.ShutdownMsg{Reason: string(rb)}})
			res.Count("proto/not-carried/reason-not-utf8", "encode-"+ou.kind, "pnc/utf8/"+ou.kind, false)
		}
	}
	r.w.flush()
	res.Rule += " || protobuf: the 7 value kinds through the exported From*/To* functions (tree compared with from_X, value with to_X), all 17 message types through Serializer().Encode/Decode and real bytes (tree = from_envelope, frame decodes to the envelope with the model frame decoder, native bytes decode to the same envelope); oracle: equal value, exact consumption with trailing bytes, length prefix, agreement with the native serializer"
	return r.w.next()
}
