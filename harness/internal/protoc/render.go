// Package protoc drives the protobuf serializer of go-perun (wire/protobuf): conversions From*/To*,
// the frame decoder over chunked streams, agreement with the native serializer. It writes additional
// case files cases_pNNN.v for coq/Run/Compare_Proto.v next to the cases of the native drivers.
package protoc

import (
	"fmt"

	pb "perun.network/go-perun/wire/protobuf"
	"verif/harness/internal/hx"
)

// ---------- rendering of the generated protobuf structs as terms of coq/Model/Proto.v ----------
// Fields are read directly (not through the nil-safe getters): nil-ness is part of the tree.

func some(s string) string { return "(Some " + s + ")" }

func bl(l [][]byte) string { return hx.ListOf(l, hx.Hex) }

func oMapping(m *pb.AddressMapping) string {
	if m == nil {
		return "None"
	}
	return some(hx.App("mkPAM", hx.Hex(m.Key), hx.Hex(m.Address)))
}

// OAddr renders *Address as `option pAddress`.
func OAddr(a *pb.Address) string {
	if a == nil {
		return "None"
	}
	return some(hx.ListOf(a.AddressMapping, oMapping))
}

func oAddrs(l []*pb.Address) string { return hx.ListOf(l, OAddr) }

func oBalance(b *pb.Balance) string {
	if b == nil {
		return "None"
	}
	return some(bl(b.Balance))
}

// OBalances renders *Balances as `option pBalances`.
func OBalances(b *pb.Balances) string {
	if b == nil {
		return "None"
	}
	return some(hx.ListOf(b.Balances, oBalance))
}

func oIndexMap(m *pb.IndexMap) string {
	if m == nil {
		return "None"
	}
	return some(hx.ListOf(m.IndexMap, func(x uint32) string { return hx.N(uint64(x)) }))
}

// OSubAlloc renders *SubAlloc as `option pSubAlloc`.
func OSubAlloc(s *pb.SubAlloc) string {
	if s == nil {
		return "None"
	}
	return some(hx.App("mkPSA", hx.Hex(s.Id), oBalance(s.Bals), oIndexMap(s.IndexMap)))
}

// OAlloc renders *Allocation as `option pAllocation`.
func OAlloc(a *pb.Allocation) string {
	if a == nil {
		return "None"
	}
	return some(hx.App("mkPAl", bl(a.Backends), bl(a.Assets), OBalances(a.Balances), hx.ListOf(a.Locked, OSubAlloc)))
}

func oBaseProp(b *pb.BaseChannelProposal) string {
	if b == nil {
		return "None"
	}
	return some(hx.App("mkPBP", hx.Hex(b.ProposalId), hx.N(b.ChallengeDuration), hx.Hex(b.NonceShare), hx.Hex(b.App),
		hx.Hex(b.InitData), OAlloc(b.InitBals), OBalances(b.FundingAgreement), hx.Hex(b.Aux)))
}

func oBaseAcc(b *pb.BaseChannelProposalAcc) string {
	if b == nil {
		return "None"
	}
	return some(hx.App("mkPBA", hx.Hex(b.ProposalId), hx.Hex(b.NonceShare)))
}

// OParams renders *Params as `option pParams`.
func OParams(p *pb.Params) string {
	if p == nil {
		return "None"
	}
	return some(hx.App("mkPP", hx.Hex(p.Id), hx.N(p.ChallengeDuration), oAddrs(p.Parts), hx.Hex(p.App), hx.Hex(p.Nonce),
		hx.Bool(p.LedgerChannel), hx.Bool(p.VirtualChannel), hx.Hex(p.Aux)))
}

// OState renders *State as `option pState`.
func OState(s *pb.State) string {
	if s == nil {
		return "None"
	}
	return some(hx.App("mkPSt", hx.Hex(s.Id), hx.N(s.Version), hx.Hex(s.App), OAlloc(s.Allocation), hx.Hex(s.Data), hx.Bool(s.IsFinal)))
}

func oTx(t *pb.Transaction) string {
	if t == nil {
		return "None"
	}
	return some(hx.App("mkPTx", OState(t.State), bl(t.Sigs)))
}

func oSigned(s *pb.SignedState) string {
	if s == nil {
		return "None"
	}
	return some(hx.App("mkPSS", OParams(s.Params), OState(s.State), bl(s.Sigs)))
}

func oChUpdate(u *pb.ChannelUpdate) string {
	if u == nil {
		return "None"
	}
	return some(hx.App("mkPCU", OState(u.State), hx.N(uint64(u.ActorIdx))))
}

func oUpdateMsg(u *pb.ChannelUpdateMsg) string {
	if u == nil {
		return "None"
	}
	return some(hx.App("mkPUM", oChUpdate(u.ChannelUpdate), hx.Hex(u.Sig)))
}

func z64(x int64) string { return fmt.Sprintf("(%d)%%Z", x) }

// Msg renders a (non-nil) oneof wrapper as `pmsg`; ok=false for a typed-nil wrapper (outside the tree).
func Msg(m interface{}) (string, bool) {
	inner := func(ctor string, isNil bool, body string) (string, bool) {
		if isNil {
			return "(" + ctor + " None)", true
		}
		return "(" + ctor + " " + some(body) + ")", true
	}
	switch w := m.(type) {
	case *pb.Envelope_PingMsg:
		if w == nil {
			return "", false
		}
		if w.PingMsg == nil {
			return "(PPing None)", true
		}
		return inner("PPing", false, z64(w.PingMsg.Created))
	case *pb.Envelope_PongMsg:
		if w == nil {
			return "", false
		}
		if w.PongMsg == nil {
			return "(PPong None)", true
		}
		return inner("PPong", false, z64(w.PongMsg.Created))
	case *pb.Envelope_ShutdownMsg:
		if w == nil {
			return "", false
		}
		if w.ShutdownMsg == nil {
			return "(PShutdown None)", true
		}
		return inner("PShutdown", false, hx.Hex([]byte(w.ShutdownMsg.Reason)))
	case *pb.Envelope_AuthResponseMsg:
		if w == nil {
			return "", false
		}
		if w.AuthResponseMsg == nil {
			return "(PAuthResponse None)", true
		}
		return inner("PAuthResponse", false, hx.Hex(w.AuthResponseMsg.Signature))
	case *pb.Envelope_LedgerChannelProposalMsg:
		if w == nil {
			return "", false
		}
		p := w.LedgerChannelProposalMsg
		if p == nil {
			return "(PLedgerProp None)", true
		}
		return inner("PLedgerProp", false, hx.App("mkPLP", oBaseProp(p.BaseChannelProposal), OAddr(p.Participant), oAddrs(p.Peers)))
	case *pb.Envelope_LedgerChannelProposalAccMsg:
		if w == nil {
			return "", false
		}
		p := w.LedgerChannelProposalAccMsg
		if p == nil {
			return "(PLedgerAcc None)", true
		}
		return inner("PLedgerAcc", false, hx.App("mkPLA", oBaseAcc(p.BaseChannelProposalAcc), OAddr(p.Participant)))
	case *pb.Envelope_SubChannelProposalMsg:
		if w == nil {
			return "", false
		}
		p := w.SubChannelProposalMsg
		if p == nil {
			return "(PSubProp None)", true
		}
		return inner("PSubProp", false, hx.App("mkPSP", oBaseProp(p.BaseChannelProposal), hx.Hex(p.Parent)))
	case *pb.Envelope_SubChannelProposalAccMsg:
		if w == nil {
			return "", false
		}
		p := w.SubChannelProposalAccMsg
		if p == nil {
			return "(PSubAcc None)", true
		}
		return inner("PSubAcc", false, oBaseAcc(p.BaseChannelProposalAcc))
	case *pb.Envelope_VirtualChannelProposalMsg:
		if w == nil {
			return "", false
		}
		p := w.VirtualChannelProposalMsg
		if p == nil {
			return "(PVirtProp None)", true
		}
		return inner("PVirtProp", false, hx.App("mkPVP", oBaseProp(p.BaseChannelProposal), OAddr(p.Proposer), oAddrs(p.Peers),
			bl(p.Parents), hx.ListOf(p.IndexMaps, oIndexMap)))
	case *pb.Envelope_VirtualChannelProposalAccMsg:
		if w == nil {
			return "", false
		}
		p := w.VirtualChannelProposalAccMsg
		if p == nil {
			return "(PVirtAcc None)", true
		}
		return inner("PVirtAcc", false, hx.App("mkPVA", oBaseAcc(p.BaseChannelProposalAcc), OAddr(p.Responder)))
	case *pb.Envelope_ChannelProposalRejMsg:
		if w == nil {
			return "", false
		}
		p := w.ChannelProposalRejMsg
		if p == nil {
			return "(PPropRej None)", true
		}
		return inner("PPropRej", false, hx.App("mkPPR", hx.Hex(p.ProposalId), hx.Hex([]byte(p.Reason))))
	case *pb.Envelope_ChannelUpdateMsg:
		if w == nil {
			return "", false
		}
		return "(PUpdate " + oUpdateMsg(w.ChannelUpdateMsg) + ")", true
	case *pb.Envelope_VirtualChannelFundingProposalMsg:
		if w == nil {
			return "", false
		}
		p := w.VirtualChannelFundingProposalMsg
		if p == nil {
			return "(PVFund None)", true
		}
		return inner("PVFund", false, hx.App("mkPVF", oUpdateMsg(p.ChannelUpdateMsg), oSigned(p.Initial), oIndexMap(p.IndexMap)))
	case *pb.Envelope_VirtualChannelSettlementProposalMsg:
		if w == nil {
			return "", false
		}
		p := w.VirtualChannelSettlementProposalMsg
		if p == nil {
			return "(PVSettle None)", true
		}
		return inner("PVSettle", false, hx.App("mkPVS", oUpdateMsg(p.ChannelUpdateMsg), oSigned(p.Final)))
	case *pb.Envelope_ChannelUpdateAccMsg:
		if w == nil {
			return "", false
		}
		p := w.ChannelUpdateAccMsg
		if p == nil {
			return "(PUpdateAcc None)", true
		}
		return inner("PUpdateAcc", false, hx.App("mkPUA", hx.Hex(p.ChannelId), hx.N(p.Version), hx.Hex(p.Sig)))
	case *pb.Envelope_ChannelUpdateRejMsg:
		if w == nil {
			return "", false
		}
		p := w.ChannelUpdateRejMsg
		if p == nil {
			return "(PUpdateRej None)", true
		}
		return inner("PUpdateRej", false, hx.App("mkPUR", hx.Hex(p.ChannelId), hx.N(p.Version), hx.Hex([]byte(p.Reason))))
	case *pb.Envelope_ChannelSyncMsg:
		if w == nil {
			return "", false
		}
		p := w.ChannelSyncMsg
		if p == nil {
			return "(PSync None)", true
		}
		return inner("PSync", false, hx.App("mkPSy", hx.N(uint64(p.Phase)), oTx(p.CurrentTx)))
	}
	return "", false
}

// Env renders *Envelope as `penv`; ok=false if the oneof holds a typed-nil wrapper.
func Env(e *pb.Envelope) (string, bool) {
	m := "None"
	if e.Msg != nil {
		s, ok := Msg(e.Msg)
		if !ok {
			return "", false
		}
		m = some(s)
	}
	return hx.App("mkPEnv", OAddr(e.Sender), OAddr(e.Recipient), m), true
}
