package protoc

import (
	"math/rand"
	"reflect"
)

// A site is one mutable field of a protobuf message tree (found by walking the generated structs).
type site struct {
	path string
	v    reflect.Value // addressable field
}

// collect walks the exported fields of a generated struct (given as pointer) and lists the fields a
// mutation can change: message pointers, repeated messages, bytes, repeated bytes, integers, index maps.
func collect(path string, ptr reflect.Value, out *[]site) {
	if ptr.Kind() != reflect.Ptr || ptr.IsNil() {
		return
	}
	st := ptr.Elem()
	if st.Kind() != reflect.Struct {
		return
	}
	t := st.Type()
	for i := 0; i < st.NumField(); i++ {
		f := t.Field(i)
		if f.PkgPath != "" { // unexported: protobuf internals
			continue
		}
		fv := st.Field(i)
		p := path + "." + f.Name
		switch fv.Kind() {
		case reflect.Ptr:
			*out = append(*out, site{p, fv})
			collect(p, fv, out)
		case reflect.Interface: // the oneof: descend into the wrapper's single field
			if !fv.IsNil() {
				collect(p, fv.Elem(), out)
			}
		case reflect.Slice:
			*out = append(*out, site{p, fv})
			if fv.Type().Elem().Kind() == reflect.Ptr {
				for j := 0; j < fv.Len(); j++ {
					collect(p+"[]", fv.Index(j), out)
				}
			}
		case reflect.Uint32, reflect.Uint64, reflect.Int64, reflect.Bool:
			*out = append(*out, site{p, fv})
		}
	}
}

var bytePatterns = [][]byte{{}, {0}, {0xff, 0xff, 0xff, 0xff}, {0, 0, 0, 7}, {0x80, 0, 0, 0}, {0, 0, 0}, {0, 0, 0, 0, 0}, {1}}

// mutate applies one random mutation at a random site; returns a class label "<kind>/<op>".
func mutate(r *rand.Rand, root interface{}, huge bool) string {
	var sites []site
	collect("", reflect.ValueOf(root), &sites)
	if len(sites) == 0 {
		return "none"
	}
	s := sites[r.Intn(len(sites))]
	v := s.v
	switch v.Kind() {
	case reflect.Ptr:
		if v.IsNil() || r.Intn(3) == 0 {
			if v.IsNil() {
				v.Set(reflect.New(v.Type().Elem()))
				return "msg/empty"
			}
			v.Set(reflect.New(v.Type().Elem()))
			return "msg/empty"
		}
		v.Set(reflect.Zero(v.Type()))
		return "msg/nil"
	case reflect.Slice:
		et := v.Type().Elem()
		switch {
		case et.Kind() == reflect.Uint8: // bytes
			b := append([]byte{}, v.Bytes()...)
			switch r.Intn(6) {
			case 0:
				if len(b) > 0 {
					b = b[:len(b)-1]
				}
				v.SetBytes(b)
				return "bytes/shorter"
			case 1:
				v.SetBytes(append(b, byte(r.Intn(256))))
				return "bytes/longer"
			case 2:
				v.SetBytes(nil)
				return "bytes/empty"
			case 3:
				v.SetBytes(append([]byte{}, bytePatterns[r.Intn(len(bytePatterns))]...))
				return "bytes/pattern"
			case 4:
				if len(b) > 0 {
					b[r.Intn(len(b))] ^= 1 << uint(r.Intn(8))
				}
				v.SetBytes(b)
				return "bytes/bitflip"
			default:
				n := []int{31, 33, 63, 65, 129, 200, 257}[r.Intn(7)]
				nb := make([]byte, n)
				r.Read(nb)
				v.SetBytes(nb)
				return "bytes/resized"
			}
		case et.Kind() == reflect.Uint32: // index map
			switch r.Intn(3) {
			case 0:
				v.Set(reflect.Append(v, reflect.ValueOf(uint32(65536+r.Intn(100000)))))
				return "imap/too-large-entry"
			case 1:
				v.Set(reflect.Append(v, reflect.ValueOf(uint32(r.Intn(65536)))))
				return "imap/extra"
			default:
				v.Set(reflect.Zero(v.Type()))
				return "imap/empty"
			}
		default: // repeated bytes or repeated message
			kind := "repbytes"
			if et.Kind() == reflect.Ptr {
				kind = "repmsg"
			}
			op := r.Intn(6)
			if huge && r.Intn(2) == 0 {
				op = 6
			}
			switch op {
			case 0:
				if v.Len() > 0 {
					v.Set(v.Slice(0, v.Len()-1))
				}
				return kind + "/drop-last"
			case 1:
				v.Set(reflect.Append(v, reflect.Zero(et)))
				return kind + "/append-nil"
			case 2:
				v.Set(reflect.Zero(v.Type()))
				return kind + "/clear"
			case 3:
				if v.Len() > 0 {
					v.Index(r.Intn(v.Len())).Set(reflect.Zero(et))
				}
				return kind + "/elem-nil"
			case 4:
				if v.Len() > 0 {
					v.Set(reflect.Append(v, v.Index(r.Intn(v.Len()))))
				}
				return kind + "/duplicate"
			case 5:
				if v.Len() > 1 {
					i, j := r.Intn(v.Len()), r.Intn(v.Len())
					a, b := reflect.ValueOf(v.Index(i).Interface()), reflect.ValueOf(v.Index(j).Interface())
					v.Index(i).Set(b)
					v.Index(j).Set(a)
				}
				return kind + "/swap"
			default: // a count above every documented limit
				n := 1025 + r.Intn(3)
				ns := reflect.MakeSlice(v.Type(), n, n)
				if v.Len() > 0 {
					for i := 0; i < n; i++ {
						ns.Index(i).Set(v.Index(0))
					}
				}
				v.Set(ns)
				return kind + "/huge-count"
			}
		}
	case reflect.Uint32:
		v.SetUint([]uint64{0, 255, 256, 65535, 65536, 4294967295}[r.Intn(6)])
		return "u32/boundary"
	case reflect.Uint64:
		v.SetUint([]uint64{0, 1, 18446744073709551615}[r.Intn(3)])
		return "u64/boundary"
	case reflect.Int64:
		v.SetInt([]int64{0, -1, -9223372036854775808, 9223372036854775807}[r.Intn(4)])
		return "i64/boundary"
	case reflect.Bool:
		v.SetBool(!v.Bool())
		return "bool/flip"
	}
	return "none"
}
