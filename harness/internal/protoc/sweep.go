package protoc

import (
	"fmt"
	"math/big"
	"reflect"
	"strings"

	"google.golang.org/protobuf/proto"
	"perun.network/go-perun/channel"
	"perun.network/go-perun/client"
	"perun.network/go-perun/wallet"
	"perun.network/go-perun/wire"
	pb "perun.network/go-perun/wire/protobuf"
	"verif/harness/internal/cv"
)

// ---------- small well-formed values (little case text, every structural feature present) ----------

func smallBal(g *cv.Gen) *big.Int { return big.NewInt(int64(g.R.Intn(900))) }

// smallAlloc: nAssets x nParts balances below 900, nLocked sub-allocations each with an index map of
// nParts entries.
func smallAlloc(g *cv.Gen, nAssets, nParts, nLocked int) channel.Allocation {
	a := g.Alloc(nAssets, nParts, 0)
	for i := range a.Balances {
		for j := range a.Balances[i] {
			a.Balances[i][j] = smallBal(g)
		}
	}
	a.Locked = make([]channel.SubAlloc, nLocked)
	for i := range a.Locked {
		bals := make([]channel.Bal, nAssets)
		for k := range bals {
			bals[k] = smallBal(g)
		}
		im := make([]channel.Index, nParts)
		for k := range im {
			im[k] = channel.Index(g.R.Intn(nParts))
		}
		a.Locked[i] = channel.SubAlloc{ID: g.ID(), Bals: bals, IndexMap: im}
	}
	return a
}

func smallState(g *cv.Gen, nParts, nLocked int) *channel.State {
	return &channel.State{ID: g.ID(), Version: uint64(g.R.Intn(100)), App: channel.NoApp(), Data: channel.NoData(),
		Allocation: smallAlloc(g, 1+nLocked, nParts, nLocked), IsFinal: g.R.Intn(2) == 0}
}

// sigPatterns: which participants have signed.
var sigPatterns = []string{"first-missing", "last-missing", "alternating", "all", "none"}

func patternSigs(g *cv.Gen, n int, pat string) []wallet.Sig {
	out := make([]wallet.Sig, n)
	for i := range out {
		present := true
		switch pat {
		case "first-missing":
			present = i != 0
		case "last-missing":
			present = i != n-1
		case "alternating":
			present = i%2 == 0
		case "none":
			present = false
		}
		if present {
			out[i] = g.Sig()
		}
	}
	return out
}

func smallBaseProp(g *cv.Gen, nParts, nLocked int) client.BaseChannelProposal {
	al := smallAlloc(g, 1+nLocked, nParts, nLocked)
	fa := al.Balances.Clone() // the funding agreement is not the initial balances
	fa[0][0] = new(big.Int).Add(fa[0][0], big.NewInt(1+int64(g.R.Intn(5))))
	fa[len(fa)-1][nParts-1] = big.NewInt(0)
	var id, nonce [32]byte
	g.R.Read(id[:])
	g.R.Read(nonce[:])
	return client.BaseChannelProposal{ProposalID: id, ChallengeDuration: uint64(1 + g.R.Intn(1000)), NonceShare: nonce,
		App: channel.NoApp(), InitData: channel.NoData(), InitBals: &al, FundingAgreement: fa}
}

func smallUpdate(g *cv.Gen, nParts, nLocked int) client.ChannelUpdateMsg {
	return client.ChannelUpdateMsg{ChannelUpdate: client.ChannelUpdate{State: smallState(g, nParts, nLocked), ActorIdx: channel.Index(g.R.Intn(nParts))}, Sig: g.Sig()}
}

func smallSigned(g *cv.Gen, nParts, nLocked int, pat string) channel.SignedState {
	p := g.Params(nParts)
	p.Aux = channel.Aux{}
	return channel.SignedState{Params: p, State: smallState(g, nParts, nLocked), Sigs: patternSigs(g, nParts, pat)}
}

// smallMsg returns a small well-formed message of type t with nParts participants, nLocked
// sub-allocations (with index maps) in its allocations and the given signature pattern (where the type
// carries signatures); ok=false for types without a small builder.
func smallMsg(g *cv.Gen, t wire.Type, nParts, nLocked int, pat string) (wire.Msg, bool) {
	switch t {
	case wire.LedgerChannelProposal:
		return &client.LedgerChannelProposalMsg{BaseChannelProposal: smallBaseProp(g, nParts, nLocked), Participant: g.WAddr(), Peers: g.RAddrs(nParts)}, true
	case wire.SubChannelProposal:
		return &client.SubChannelProposalMsg{BaseChannelProposal: smallBaseProp(g, nParts, nLocked), Parent: g.ID()}, true
	case wire.VirtualChannelProposal:
		n := 2 + g.R.Intn(2) // 2..3 parents, index maps of different lengths
		parents := make([]channel.ID, n)
		imaps := make([][]channel.Index, n)
		for i := range parents {
			parents[i] = g.ID()
			imaps[i] = make([]channel.Index, i+1)
			for k := range imaps[i] {
				imaps[i][k] = channel.Index(g.R.Intn(3))
			}
		}
		return &client.VirtualChannelProposalMsg{BaseChannelProposal: smallBaseProp(g, nParts, nLocked), Proposer: g.WAddr(), Peers: g.RAddrs(2), Parents: parents, IndexMaps: imaps}, true
	case wire.ChannelUpdate:
		u := smallUpdate(g, nParts, nLocked)
		return &u, true
	case wire.VirtualChannelFundingProposal:
		im := make([]channel.Index, nParts)
		for k := range im {
			im[k] = channel.Index(g.R.Intn(nParts))
		}
		return &client.VirtualChannelFundingProposalMsg{ChannelUpdateMsg: smallUpdate(g, nParts, 0), Initial: smallSigned(g, nParts, nLocked, pat), IndexMap: im}, true
	case wire.VirtualChannelSettlementProposal:
		return &client.VirtualChannelSettlementProposalMsg{ChannelUpdateMsg: smallUpdate(g, nParts, 0), Final: smallSigned(g, nParts, nLocked, pat)}, true
	case wire.ChannelSync:
		return &client.ChannelSyncMsg{Phase: channel.Phase(g.R.Intn(12)), CurrentTX: channel.Transaction{State: smallState(g, nParts, nLocked), Sigs: patternSigs(g, nParts, pat)}}, true
	}
	return nil, false
}

func smallEnvelope(g *cv.Gen, t wire.Type, nParts, nLocked int, pat string) *wire.Envelope {
	if m, ok := smallMsg(g, t, nParts, nLocked, pat); ok {
		return &wire.Envelope{Sender: g.RAddr(), Recipient: g.RAddr(), Msg: m}
	}
	return pwfEnvelope(g, t)
}

// ---------- independent variation of the count of every repeated field ----------

// sliceSites lists the repeated fields of a tree with their path (indices dropped); sub-messages whose
// type is in `covered` are not entered (their fields are varied where that type is the root); the path
// restarts at a sub-message type that several message types share, so that its fields are varied once.
func sliceSites(path string, ptr reflect.Value, covered map[reflect.Type]bool, root bool, out *[]site) {
	if ptr.Kind() != reflect.Ptr || ptr.IsNil() {
		return
	}
	if !root && covered[ptr.Type()] {
		return
	}
	if !root && sharedTypes()[ptr.Type()] {
		path = "|" + ptr.Type().Elem().Name()
	}
	st := ptr.Elem()
	if st.Kind() != reflect.Struct {
		return
	}
	t := st.Type()
	for i := 0; i < st.NumField(); i++ {
		f := t.Field(i)
		if f.PkgPath != "" {
			continue
		}
		fv := st.Field(i)
		p := path + "." + f.Name
		switch fv.Kind() {
		case reflect.Ptr:
			sliceSites(p, fv, covered, false, out)
		case reflect.Interface:
			if !fv.IsNil() {
				sliceSites(p, fv.Elem(), covered, false, out)
			}
		case reflect.Slice:
			if fv.Type().Elem().Kind() == reflect.Uint8 { // a bytes field, not a repeated field
				continue
			}
			*out = append(*out, site{p, fv})
			if fv.Type().Elem().Kind() == reflect.Ptr {
				for j := 0; j < fv.Len(); j++ {
					sliceSites(p+"[]", fv.Index(j), covered, false, out)
				}
			}
		}
	}
}

// resize sets the length of a repeated field: shorter by cutting, longer by repeating the last element
// (an empty message / empty bytes / 0 when there is none).
func resize(v reflect.Value, m int) {
	if m <= v.Len() {
		v.Set(v.Slice(0, m))
		return
	}
	et := v.Type().Elem()
	for v.Len() < m {
		var e reflect.Value
		switch {
		case v.Len() > 0:
			e = v.Index(v.Len() - 1)
		case et.Kind() == reflect.Ptr:
			e = reflect.New(et.Elem())
		case et.Kind() == reflect.Slice:
			e = reflect.MakeSlice(et, 0, 0)
		default:
			e = reflect.Zero(et)
		}
		v.Set(reflect.Append(v, e))
	}
}

// dropAux empties every Aux field: 256 zero bytes say nothing and cost 512 characters of case text.
func dropAux(ptr reflect.Value) {
	var all []site
	collect("", ptr, &all)
	for _, s := range all {
		if strings.HasSuffix(s.path, ".Aux") && s.v.Kind() == reflect.Slice {
			s.v.SetBytes(nil)
		}
	}
}

var sharedTypesMemo map[reflect.Type]bool

// sharedTypes: the message types that are a field of more than one message type (computed from the
// generated structs).
func sharedTypes() map[reflect.Type]bool {
	if sharedTypesMemo != nil {
		return sharedTypesMemo
	}
	holders := map[reflect.Type]map[reflect.Type]bool{}
	visited := map[reflect.Type]bool{}
	var walk func(t reflect.Type)
	note := func(holder, ft reflect.Type) {
		if ft.Kind() == reflect.Slice {
			ft = ft.Elem()
		}
		if ft.Kind() == reflect.Ptr && ft.Elem().Kind() == reflect.Struct {
			if holders[ft] == nil {
				holders[ft] = map[reflect.Type]bool{}
			}
			holders[ft][holder] = true
			walk(ft.Elem())
		}
	}
	walk = func(t reflect.Type) {
		if visited[t] {
			return
		}
		visited[t] = true
		for i := 0; i < t.NumField(); i++ {
			if f := t.Field(i); f.PkgPath == "" {
				note(t, f.Type)
			}
		}
	}
	walk(reflect.TypeOf(pb.Envelope{}))
	for _, w := range oneofWrappers() {
		walk(reflect.TypeOf(w).Elem())
	}
	sharedTypesMemo = map[reflect.Type]bool{}
	for t, hs := range holders {
		if len(hs) > 1 {
			sharedTypesMemo[t] = true
		}
	}
	return sharedTypesMemo
}

var coveredRoots = map[reflect.Type]bool{
	reflect.TypeOf(&pb.Allocation{}): true, reflect.TypeOf(&pb.Params{}): true, reflect.TypeOf(&pb.State{}): true,
}

// sweepCounts runs `run` on copies of base in which ONE repeated field has 0, 1, n-1 or n+1 elements
// (every repeated field of the tree in turn, each path once per root name).
func (r *run) sweepCounts(rootName string, base proto.Message, seen map[string]bool, run func(t proto.Message, class string)) {
	var sites []site
	sliceSites("", reflect.ValueOf(base), coveredRoots, true, &sites)
	for k, s := range sites {
		key := rootName + s.path
		if seen[key] {
			continue
		}
		seen[key] = true
		n := s.v.Len()
		done := map[int]bool{n: true}
		for _, m := range []int{0, 1, n - 1, n + 1} {
			if m < 0 || done[m] {
				continue
			}
			done[m] = true
			t := proto.Clone(base)
			var ts []site
			sliceSites("", reflect.ValueOf(t), coveredRoots, true, &ts)
			resize(ts[k].v, m)
			rel := "n"
			switch {
			case m == 0:
				rel = "0"
			case m == n-1:
				rel = "n-1"
			case m == n+1:
				rel = "n+1"
			case m == 1:
				rel = "1"
			}
			run(t, fmt.Sprintf("counts/%s%s/%s", rootName, strings.ReplaceAll(s.path, ".", "/"), rel))
		}
	}
}

// countSweep: every value kind and every message type (and the envelope header), built small.
func (r *run) countSweep() {
	g := r.g
	seen := map[string]bool{}
	for ki := range kinds {
		k := &kinds[ki]
		var val interface{}
		switch k.name {
		case "TAlloc":
			val = smallAlloc(g, 2, 2, 1)
		case "TState":
			val = smallState(g, 2, 1)
		case "TBals":
			val = smallAlloc(g, 2, 2, 0).Balances
		case "TSub":
			val = smallAlloc(g, 2, 2, 1).Locked[0]
		default:
			val, _ = k.gen(g)
		}
		base, _, err := k.from(val)
		if err != nil {
			continue
		}
		dropAux(reflect.ValueOf(base))
		r.sweepCounts(k.name, base, seen, func(t proto.Message, class string) { r.treeToKind(k, t, class) })
	}
	for t := wire.Type(0); t < wire.LastType; t++ {
		e := smallEnvelope(g, t, 2, 0, "all")
		oe, _, tree := encodeTree(e)
		if oe.kind != "ok" {
			continue
		}
		dropAux(reflect.ValueOf(tree))
		class := msgClass(e)
		hdr := &pb.Envelope{Msg: tree.Msg} // the message alone: sender and recipient are swept once, below
		_ = class
		r.sweepCounts("Msg", hdr, seen, func(tm proto.Message, cl string) {
			env := tm.(*pb.Envelope)
			if exportedMsg(env.Msg) {
				r.msgDirect(env, cl)
			} else {
				env.Sender, env.Recipient = tree.Sender, tree.Recipient
				r.envThroughDecode(env, cl, false)
			}
		})
		if t == wire.Ping {
			r.sweepCounts("Envelope", tree, seen, func(tm proto.Message, cl string) { r.envThroughDecode(tm.(*pb.Envelope), cl, false) })
		}
	}
}

// exportedMsg: the oneof wrappers whose conversion is an exported function (see toMsg).
func exportedMsg(w interface{}) bool {
	switch w.(type) {
	case *pb.Envelope_PingMsg, *pb.Envelope_PongMsg, *pb.Envelope_ShutdownMsg, *pb.Envelope_AuthResponseMsg, *pb.Envelope_ChannelSyncMsg:
		return false
	}
	return w != nil
}

// wfPatterns: well-formed envelopes the random generators rarely produce - every pattern of present and
// absent signatures (2..4 participants) in sync messages and in the signed states of virtual funding and
// settlement proposals, sub-allocations with index maps, a funding agreement that differs from the
// balances, 2..3 parents with index maps of different lengths. Each is encoded by both serializers; the
// tree the protobuf encoder produced is compared with from_envelope, the oracle demands the round trip
// and the agreement.
func (r *run) wfPatterns(check func(e *wire.Envelope, class string, full bool)) {
	for i, pat := range sigPatterns {
		for _, t := range []wire.Type{wire.ChannelSync, wire.VirtualChannelFundingProposal, wire.VirtualChannelSettlementProposal} {
			if t == wire.VirtualChannelSettlementProposal && (pat == "all" || pat == "none") {
				continue // the signed state of a settlement goes through the same conversion as that of a funding proposal
			}
			n := 2 + i%2 // 2..3 participants; 4 for the (small) sync message with alternating signatures
			if t == wire.ChannelSync && pat == "alternating" {
				n = 4
			}
			e := smallEnvelope(r.g, t, n, 1, pat)
			check(e, fmt.Sprintf("pattern/%s/sigs-%s", msgClass(e), pat), false)
		}
	}
	for _, t := range []wire.Type{wire.LedgerChannelProposal, wire.SubChannelProposal, wire.VirtualChannelProposal} {
		e := smallEnvelope(r.g, t, 2+r.g.R.Intn(2), 1, "all")
		check(e, "pattern/"+msgClass(e)+"/funding-agreement-parents", false)
	}
}
