// vh_c08 runs the C08 driver alone (local runs while cmd/vharness is shared).
package main

import (
	"flag"
	"os"

	_ "perun.network/go-perun/backend/sim"
	"verif/harness/internal/c08"
)

func main() {
	seed := flag.Int64("seed", 1, "PRNG seed")
	tier := flag.String("tier", "quick", "quick|thorough")
	out := flag.String("out", "", "output directory")
	flag.Parse()
	if *out == "" {
		os.Exit(2)
	}
	if err := os.MkdirAll(*out, 0o755); err != nil {
		panic(err)
	}
	c08.Run(*seed, *tier, *out)
}
