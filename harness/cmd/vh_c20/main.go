// vh_c20 runs the C20 driver alone (local runs while cmd/vharness is shared).
package main

import (
	"flag"
	"os"

	"verif/harness/internal/c20"
)

func main() {
	seed := flag.Int64("seed", 1, "PRNG seed")
	tier := flag.String("tier", "quick", "quick|thorough")
	out := flag.String("out", "", "output directory")
	flag.Parse()
	if *out == "" {
		os.Exit(2)
	}
	if err := os.MkdirAll(*out, 0o755); err != nil {
		panic(err)
	}
	c20.Run(*seed, *tier, *out)
}
