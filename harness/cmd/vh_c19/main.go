// vh_c19 runs only the C19 driver (local quick runs; the registered entry point is cmd/vharness).
package main

import (
	"flag"
	"os"

	_ "perun.network/go-perun/backend/sim"
	"verif/harness/internal/c19"
)

func main() {
	seed := flag.Int64("seed", 1, "PRNG seed")
	tier := flag.String("tier", "quick", "quick|thorough")
	out := flag.String("out", "/tmp/c19out", "output directory")
	flag.Parse()
	if err := os.MkdirAll(*out, 0o755); err != nil {
		panic(err)
	}
	c19.Run(*seed, *tier, *out)
}
