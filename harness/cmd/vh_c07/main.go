// vh_c07 runs the C07/C12 drivers alone (local runs while cmd/vharness is shared).
package main

import (
	"flag"
	"os"

	_ "perun.network/go-perun/backend/sim"
	"verif/harness/internal/c07"
)

func main() {
	seed := flag.Int64("seed", 1, "PRNG seed")
	tier := flag.String("tier", "quick", "quick|thorough")
	out := flag.String("out", "", "output directory")
	prop := flag.String("prop", "C07", "C07|C12")
	flag.Parse()
	if *out == "" {
		os.Exit(2)
	}
	if err := os.MkdirAll(*out, 0o755); err != nil {
		panic(err)
	}
	if *prop == "C12" {
		c07.RunC12(*seed, *tier, *out)
	} else {
		c07.RunC07(*seed, *tier, *out)
	}
}
