// vh_c06 runs only the C06 driver (local quick runs; the registered entry point is cmd/vharness).
package main

import (
	"flag"
	"os"

	"verif/harness/internal/c06"
)

func main() {
	seed := flag.Int64("seed", 1, "PRNG seed")
	tier := flag.String("tier", "quick", "quick|thorough")
	out := flag.String("out", "/tmp/c06out", "output directory")
	flag.Parse()
	if err := os.MkdirAll(*out, 0o755); err != nil {
		panic(err)
	}
	c06.Run(*seed, *tier, *out)
}
