// vharness runs the real go-perun code on generated inputs, checks the property oracles and
// writes the inputs with the observed outputs as Coq cases.
package main

import (
	"flag"
	"fmt"
	"os"

	_ "perun.network/go-perun/backend/sim"
	simwire "perun.network/go-perun/backend/sim/wire"
	"perun.network/go-perun/wire"
	_ "perun.network/go-perun/client"
	"verif/harness/internal/c03"
	"verif/harness/internal/c04"
	"verif/harness/internal/c05"
	"verif/harness/internal/c06"
	"verif/harness/internal/c07"
	"verif/harness/internal/c08"
	"verif/harness/internal/c15"
	"verif/harness/internal/c17"
	"verif/harness/internal/c18"
	"verif/harness/internal/c20"
	"verif/harness/internal/codec"
	"verif/harness/internal/c19"
	"verif/harness/internal/mach"
	"verif/harness/internal/persist"
	"verif/harness/internal/tables"
)

var drivers = map[string]func(seed int64, tier, out string){
	"C03": c03.Run,
	"C04": c04.Run,
	"C05": c05.Run,
	"C06": c06.Run,
	"C07": c07.RunC07,
	"C12": c07.RunC12,
	"C08": c08.Run,
	"C15": c15.Run,
	"C17": c17.Run,
	"C18": c18.Run,
	"C19": c19.Run,
	"C20": c20.Run,
	"C10": persist.RunC10,
	"C11": persist.RunC11,
	"gen": tables.Run,
	"C13": codec.RunC13,
	"C14": codec.RunC14,
	"C16": codec.RunC16,
	"C01": mach.Run("C01"),
	"C02": mach.Run("C02"),
	"C09": mach.Run("C09"),
}

func main() {
	// wire.NewAddress is process-global and the last package init wins: a driver that links
	// wire/net/simple would otherwise replace the sim wire address used by all codecs.
	wire.SetNewAddressFunc(func() wire.Address { return simwire.NewAddress() })
	seed := flag.Int64("seed", 1, "PRNG seed")
	_ = flag.String("replay", "", "replay file (informational)")
	tier := flag.String("tier", "quick", "quick|thorough")
	out := flag.String("out", "", "output directory")
	flag.Parse()
	if flag.NArg() != 1 || *out == "" {
		fmt.Fprintln(os.Stderr, "usage: vharness -seed N -tier quick|thorough -out DIR <property>")
		os.Exit(2)
	}
	d, ok := drivers[flag.Arg(0)]
	if !ok {
		fmt.Fprintln(os.Stderr, "unknown property", flag.Arg(0))
		os.Exit(2)
	}
	if err := os.MkdirAll(*out, 0o755); err != nil {
		panic(err)
	}
	d(*seed, *tier, *out)
}
