// vh_c03 runs the C03/C04 drivers locally (the registered entry point is cmd/vharness).
package main

import (
	"flag"
	"fmt"
	"math/rand"
	"os"

	_ "perun.network/go-perun/backend/sim"
	"verif/harness/internal/c03"
	"verif/harness/internal/c04"
	"verif/harness/internal/cv"
	"verif/harness/internal/hx"
	"verif/harness/internal/settle"
	"verif/harness/internal/strictledger"
)

func main() {
	seed := flag.Int64("seed", 1, "PRNG seed")
	tier := flag.String("tier", "quick", "quick|thorough")
	out := flag.String("out", "/tmp/c03out", "output directory")
	mode := flag.String("mode", "ledger", "ledger|c03|c04")
	n := flag.Int("n", 40, "number of cases")
	flag.Parse()
	_ = tier
	if err := os.MkdirAll(*out, 0o755); err != nil {
		panic(err)
	}
	switch *mode {
	case "ledger":
		hx.Seed(*seed)
		g := &cv.Gen{R: rand.New(rand.NewSource(hx.Rng.Int63()))}
		res := hx.NewResult("ledger", *seed, *tier)
		cnt := 0
		w := &strictledger.Writer{Dir: *out, Module: "Run.Compare_Ledger", Prefix: "L", PerFile: 8, Counter: &cnt}
		strictledger.RunDiff(g, *n, w, res)
		res.Write(*out)
		fmt.Println("cases:", cnt, "outcomes:", len(res.Outcomes))
	case "c03":
		c03.Run(*seed, *tier, *out)
	case "c04":
		c04.Run(*seed, *tier, *out)
	case "e2e", "e2e4":
		r := rand.New(rand.NewSource(*seed))
		for i := 0; i < *n; i++ {
			sc := settle.GenScenario(rand.New(rand.NewSource(r.Int63())), *mode == "e2e4")
			fmt.Printf("--- scenario %d: %s\n", i, sc)
			run := settle.Execute(sc)
			fmt.Println(settle.Describe(run))
		}
	}
}
