// vh_c10 runs only the persistence drivers C10 / C11 (local runs; the registered entry point is cmd/vharness).
package main

import (
	"flag"
	"os"

	_ "perun.network/go-perun/backend/sim"
	"verif/harness/internal/persist"
)

func main() {
	seed := flag.Int64("seed", 1, "PRNG seed")
	tier := flag.String("tier", "quick", "quick|thorough")
	out := flag.String("out", "/tmp/c10out", "output directory")
	flag.Parse()
	prop := "C10"
	if flag.NArg() > 0 {
		prop = flag.Arg(0)
	}
	_ = os.RemoveAll(*out)
	if err := os.MkdirAll(*out, 0o755); err != nil {
		panic(err)
	}
	if prop == "C11" {
		persist.RunC11(*seed, *tier, *out)
		return
	}
	persist.RunC10(*seed, *tier, *out)
}
