// vh_c05 runs only the C05 driver (local quick runs; the registered entry point is cmd/vharness).
// With -repro it runs the refused-stop scenario of DESIGN.md section 10 row 11 against the real watcher.
package main

import (
	"flag"
	"fmt"
	"os"

	"verif/harness/internal/c05"
)

func main() {
	seed := flag.Int64("seed", 1, "PRNG seed")
	tier := flag.String("tier", "quick", "quick|thorough")
	out := flag.String("out", "/tmp/c05out", "output directory")
	repro := flag.Bool("repro", false, "reproduce the refused-stop defect")
	flag.Parse()
	if *repro {
		fmt.Println(c05.Repro())
		return
	}
	if err := os.MkdirAll(*out, 0o755); err != nil {
		panic(err)
	}
	c05.Run(*seed, *tier, *out)
}
