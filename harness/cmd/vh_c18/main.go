// vh_c18 runs only the C18 driver (local quick runs; the registered entry point is cmd/vharness).
package main

import (
	"flag"
	"os"

	"verif/harness/internal/c18"
)

func main() {
	seed := flag.Int64("seed", 1, "PRNG seed")
	tier := flag.String("tier", "quick", "quick|thorough")
	out := flag.String("out", "/tmp/c18out", "output directory")
	flag.Parse()
	if err := os.MkdirAll(*out, 0o755); err != nil {
		panic(err)
	}
	c18.Run(*seed, *tier, *out)
}
