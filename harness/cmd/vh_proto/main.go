// vh_proto runs the protobuf drivers on their own (local runs): vh_proto C13|C14|C16 [--tier t] [--seed n] [--out dir]
package main

import (
	"flag"
	"fmt"
	"os"

	_ "perun.network/go-perun/backend/sim"
	"verif/harness/internal/hx"
	"verif/harness/internal/protoc"
)

func main() {
	if len(os.Args) < 2 {
		fmt.Println("usage: vh_proto C13|C14|C16 [--tier quick|thorough] [--seed n] [--out dir]")
		os.Exit(2)
	}
	prop := os.Args[1]
	fs := flag.NewFlagSet("vh_proto", flag.ExitOnError)
	tier := fs.String("tier", "quick", "")
	seed := fs.Int64("seed", 1, "")
	out := fs.String("out", "/verif/work/proto_"+prop, "")
	start := fs.Int("start", 0, "")
	_ = fs.Parse(os.Args[2:])
	if err := os.MkdirAll(*out, 0o755); err != nil {
		panic(err)
	}
	hx.Seed(*seed)
	res := hx.NewResult(prop, *seed, *tier)
	var next int
	switch prop {
	case "C13":
		next = protoc.RunC13(*seed, *tier, *out, *start, res)
	case "C14":
		next = protoc.RunC14(*seed, *tier, *out, *start, res)
	case "C16":
		next = protoc.RunC16(*seed, *tier, *out, *start, res)
	default:
		panic("unknown property")
	}
	res.Write(*out)
	fmt.Printf("%s: cases %d..%d, failures %d, evaluations %d\n", prop, *start, next-1, len(res.Failures), res.Evaluations)
	for _, f := range res.Failures {
		fmt.Printf("  FAIL %s / %s: %s (case %d)\n", f.Site, f.InputClass, f.What, f.Case)
	}
}
