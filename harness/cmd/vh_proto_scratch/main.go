package main

import (
	"bytes"
	"fmt"
	"math/big"
	"math/rand"

	"google.golang.org/protobuf/proto"
	_ "perun.network/go-perun/backend/sim"
	"perun.network/go-perun/channel"
	"perun.network/go-perun/client"
	"perun.network/go-perun/wire"
	pb "perun.network/go-perun/wire/protobuf"
	"verif/harness/internal/cv"
)

func try(name string, f func() (interface{}, error)) {
	defer func() {
		if r := recover(); r != nil {
			fmt.Printf("%-40s PANIC %v\n", name, r)
		}
	}()
	v, err := f()
	if err != nil {
		fmt.Printf("%-40s ERR %v\n", name, err)
		return
	}
	fmt.Printf("%-40s OK %v\n", name, v)
}

func frame(e *pb.Envelope) []byte {
	d, err := proto.Marshal(e)
	if err != nil {
		panic(err)
	}
	return append([]byte{byte(len(d) >> 8), byte(len(d))}, d...)
}

func main() {
	g := &cv.Gen{R: rand.New(rand.NewSource(1))}
	ser := pb.Serializer()
	// 1. locked dropped
	st := g.State()
	for len(st.Locked) == 0 {
		st = g.State()
	}
	u := &client.ChannelUpdateMsg{ChannelUpdate: client.ChannelUpdate{State: st, ActorIdx: 1}, Sig: g.Sig()}
	env := &wire.Envelope{Sender: g.RAddr(), Recipient: g.RAddr(), Msg: u}
	var buf bytes.Buffer
	fmt.Println("encode:", ser.Encode(&buf, env))
	e2, err := ser.Decode(&buf)
	fmt.Println("decode err:", err)
	if err == nil {
		fmt.Println("locked before", len(st.Locked), "after", len(e2.Msg.(*client.ChannelUpdateMsg).State.Locked))
	}
	// 2. ToAllocation backends shorter
	try("ToAllocation backends<assets", func() (interface{}, error) {
		return pb.ToAllocation(&pb.Allocation{Assets: [][]byte{{0, 0, 0, 0, 0, 0, 0, 1}}})
	})
	try("ToAllocation unknown backend", func() (interface{}, error) {
		return pb.ToAllocation(&pb.Allocation{Backends: [][]byte{{0, 0, 0, 7}}, Assets: [][]byte{{0, 0, 0, 0, 0, 0, 0, 1}}})
	})
	try("ToAllocation empty", func() (interface{}, error) { return pb.ToAllocation(nil) })
	try("ToAllocation 2000 parts", func() (interface{}, error) {
		row := make([][]byte, 2000)
		a, err := pb.ToAllocation(&pb.Allocation{Backends: [][]byte{{0, 0, 0, 0}}, Assets: [][]byte{{0, 0, 0, 0, 0, 0, 0, 1}}, Balances: &pb.Balances{Balances: []*pb.Balance{{Balance: row}}}})
		if err != nil {
			return nil, err
		}
		return fmt.Sprintf("parts=%d valid=%v", len(a.Balances[0]), a.Valid()), nil
	})
	try("ToAllocation bigint 300 bytes", func() (interface{}, error) {
		a, err := pb.ToAllocation(&pb.Allocation{Backends: [][]byte{{0, 0, 0, 0}}, Assets: [][]byte{{0, 0, 0, 0, 0, 0, 0, 1}}, Balances: &pb.Balances{Balances: []*pb.Balance{{Balance: [][]byte{bytes.Repeat([]byte{1}, 300)}}}}})
		if err != nil {
			return nil, err
		}
		return fmt.Sprintf("bits=%d valid=%v enc=%v", a.Balances[0][0].BitLen(), a.Valid(), a.Encode(&bytes.Buffer{})), nil
	})
	try("ToParams nil", func() (interface{}, error) { return pb.ToParams(nil) })
	try("ToParams empty part", func() (interface{}, error) { return pb.ToParams(&pb.Params{Parts: []*pb.Address{{}}}) })
	w := g.WAddr()
	pw, _ := pb.FromWalletAddr(w)
	try("ToParams long nonce", func() (interface{}, error) {
		return pb.ToParams(&pb.Params{Parts: []*pb.Address{pw, pw}, ChallengeDuration: 1, Nonce: bytes.Repeat([]byte{1}, 200)})
	})
	try("ToParams nonce 100", func() (interface{}, error) {
		p, err := pb.ToParams(&pb.Params{Parts: []*pb.Address{pw, pw}, ChallengeDuration: 1, Nonce: bytes.Repeat([]byte{1}, 100)})
		return p != nil, err
	})
	try("ToParams 1 part cd 0", func() (interface{}, error) {
		p, err := pb.ToParams(&pb.Params{Parts: []*pb.Address{pw}})
		return p != nil, err
	})
	try("ToWalletAddr unknown backend", func() (interface{}, error) {
		return pb.ToWalletAddr(&pb.Address{AddressMapping: []*pb.AddressMapping{{Key: []byte{0, 0, 0, 9}, Address: make([]byte, 64)}}})
	})
	try("ToWalletAddr short key", func() (interface{}, error) {
		return pb.ToWalletAddr(&pb.Address{AddressMapping: []*pb.AddressMapping{{Key: []byte{0, 0}, Address: make([]byte, 64)}}})
	})
	try("ToWalletAddr nil mapping", func() (interface{}, error) {
		return pb.ToWalletAddr(&pb.Address{AddressMapping: []*pb.AddressMapping{nil}})
	})
	try("ToWireAddr neg key", func() (interface{}, error) {
		return pb.ToWireAddr(&pb.Address{AddressMapping: []*pb.AddressMapping{{Key: []byte{0xff, 0xff, 0xff, 0xff, 9}, Address: make([]byte, 5)}}})
	})
	// zero-length frame
	try("Decode zero frame", func() (interface{}, error) { return ser.Decode(bytes.NewReader([]byte{0, 0})) })
	try("Decode env nil inner ping", func() (interface{}, error) {
		return ser.Decode(bytes.NewReader(frame(&pb.Envelope{Msg: &pb.Envelope_PingMsg{}})))
	})
	try("Decode env sync empty", func() (interface{}, error) {
		return ser.Decode(bytes.NewReader(frame(&pb.Envelope{Msg: &pb.Envelope_ChannelSyncMsg{ChannelSyncMsg: &pb.ChannelSyncMsg{}}})))
	})
	try("Decode env update empty", func() (interface{}, error) {
		return ser.Decode(bytes.NewReader(frame(&pb.Envelope{Msg: &pb.Envelope_ChannelUpdateMsg{}})))
	})
	try("Decode env vfund empty", func() (interface{}, error) {
		return ser.Decode(bytes.NewReader(frame(&pb.Envelope{Msg: &pb.Envelope_VirtualChannelFundingProposalMsg{}})))
	})
	try("Decode env ledgerprop empty", func() (interface{}, error) {
		return ser.Decode(bytes.NewReader(frame(&pb.Envelope{Msg: &pb.Envelope_LedgerChannelProposalMsg{}})))
	})
	// encode sync with nil state
	try("Encode sync nil state", func() (interface{}, error) {
		return nil, ser.Encode(&bytes.Buffer{}, &wire.Envelope{Sender: g.RAddr(), Recipient: g.RAddr(), Msg: &client.ChannelSyncMsg{}})
	})
	try("Encode shutdown invalid utf8", func() (interface{}, error) {
		return nil, ser.Encode(&bytes.Buffer{}, &wire.Envelope{Sender: g.RAddr(), Recipient: g.RAddr(), Msg: &wire.ShutdownMsg{Reason: "\xff\xfe"}})
	})
	// norm experiments
	normexp := func(name string, e *pb.Envelope) {
		d, err := proto.Marshal(e)
		if err != nil {
			fmt.Println(name, "marshal err", err)
			return
		}
		var o pb.Envelope
		err = proto.Unmarshal(d, &o)
		fmt.Printf("%s: bytes=%x err=%v out=%+v\n", name, d, err, &o)
	}
	normexp("nil elem in peers", &pb.Envelope{Msg: &pb.Envelope_LedgerChannelProposalMsg{LedgerChannelProposalMsg: &pb.LedgerChannelProposalMsg{Peers: []*pb.Address{nil, {}}}}})
	normexp("nil inner oneof", &pb.Envelope{Msg: &pb.Envelope_PingMsg{}})
	normexp("empty sender", &pb.Envelope{Sender: &pb.Address{}})
	normexp("typed nil wrapper", &pb.Envelope{Msg: (*pb.Envelope_PingMsg)(nil)})
	normexp("empty sig elems", &pb.Envelope{Msg: &pb.Envelope_ChannelSyncMsg{ChannelSyncMsg: &pb.ChannelSyncMsg{CurrentTx: &pb.Transaction{Sigs: [][]byte{nil, {}, {1}}}}}})
	var o pb.Envelope
	d, _ := proto.Marshal(&pb.Envelope{Msg: &pb.Envelope_ChannelSyncMsg{ChannelSyncMsg: &pb.ChannelSyncMsg{CurrentTx: &pb.Transaction{Sigs: [][]byte{nil, {}, {1}}}}}})
	proto.Unmarshal(d, &o)
	for _, s := range o.GetChannelSyncMsg().GetCurrentTx().GetSigs() {
		fmt.Println("sig nil?", s == nil, len(s))
	}
	_ = big.NewInt
	_ = channel.NoApp
}
