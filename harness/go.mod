module verif/harness

go 1.23.0

require (
	github.com/pkg/errors v0.9.1
	golang.org/x/crypto v0.37.0
	google.golang.org/protobuf v1.36.6
	perun.network/go-perun v0.0.0
	polycry.pt/poly-go v0.0.0-20220301085937-fb9d71b45a37
)

require (
	github.com/davecgh/go-spew v1.1.1 // indirect
	github.com/golang/snappy v0.0.4 // indirect
	github.com/google/uuid v1.6.0 // indirect
	github.com/pmezard/go-difflib v1.0.0 // indirect
	github.com/sirupsen/logrus v1.9.3 // indirect
	github.com/stretchr/testify v1.10.0 // indirect
	github.com/syndtr/goleveldb v1.0.1-0.20210819022825-2ae1ddf74ef7 // indirect
	golang.org/x/sync v0.13.0 // indirect
	golang.org/x/sys v0.32.0 // indirect
	gopkg.in/yaml.v3 v3.0.1 // indirect
)

replace perun.network/go-perun => /repo
