#!/bin/sh
# usage: loadtest.sh <burners> <seed> <props...>  -- run quick checks while <burners> busy loops compete for the CPUs
n=$1; seed=$2; shift 2
pids=""
for i in $(seq $n); do ( while :; do :; done ) & pids="$pids $!"; done
trap 'kill $pids 2>/dev/null' EXIT INT TERM
for p in "$@"; do /verif/check $p --tier quick --seed $seed 2>&1 | grep "VIOLATION\|seed=\|failed" | cut -c1-200; done
kill $pids 2>/dev/null
